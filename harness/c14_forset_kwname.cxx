// C14 (output is a pure function of the inputs): InterfaceMakerPythonNative::write_function_forset receives the overloads
// of one arity as a std::set<FunctionRemap *>, i.e. in ADDRESS order.  When min == max == 1 argument and keyword
// arguments are accepted, it decides from the first parameter NAMES of the overloads whether the single argument can be
// fetched with Dtool_ExtractArg(&arg, args, kwds, "<name>") (all names equal) or has to go through
// ParseTupleAndKeywords (names differ).  Both the decision and the emitted name must be a function of the SET of
// overloads, not of which FunctionRemap happens to have the lowest address.
//
// The REAL write_function_forset runs twice on two overloads with symbolic parameter names (equal or different): once
// with overload A in the lower-address slot of one allocation and B in the higher one, once with the slots exchanged.
// Everything it calls after the decision is a recording stand-in (write_function_instance records the remap and the
// args_type it is handed, write_orig_prototype prints one letter identifying the overload).  The emitted token
// streams and the recorded calls of the two runs must be identical, and the decision must be "ExtractArg iff the names
// are equal".
#include "verif.h"
#include "vstream.h"
#include "interfaceMakerPythonNative.h"
#include "functionRemap.h"
#include "parameterRemap.h"
#include <new>
#include <set>
#include <string>

bool mangle_names = true;     // defined in interrogate.cxx (a main file, never linked)
#ifdef VERIF_NATIVE
// further globals of interrogate.cxx that the natively linked (never executed here) emitter code refers to
#include "interrogate.h"
#include "cppParser.h"
CPPParser parser;
CPPVisibility min_vis = V_published;
bool output_function_names, manage_reference_counts, watch_asserts, true_wrapper_names, track_interpreter, generate_spam,
     left_inheritance_requires_upcast = true, save_unique_names, no_database, convert_strings, output_function_pointers,
     output_module_specific, build_c_wrappers, build_python_wrappers, build_python_obj_wrappers, build_python_native;
std::string library_name, module_name, output_data_basename;
Filename output_code_filename, output_data_filename;
#endif
int get_type_sort(CPPType *type);

#ifndef NL
#define NL 5                  // length of the parameter names ("width" / "scale")
#endif
#ifndef DIRHI
#define DIRHI 1
#endif
#ifndef VLO
#define VLO 0
#define VHI NL
#endif
struct Role { char name[NL]; int sortv; };
static Role roles[2];
static char type_token[2];    // the parameter type of overload A / B (identity only)
static int role_of_type(CPPType *type) {
  long off = (char *)type - &type_token[0];
  ASSERT(off >= 0 && off < 2, "C14 model: type token of one of the two overloads");
  return (int)off;
}
// cut point: sort value per overload (distinct: ties are the business of c14_overload_order)
int get_type_sort(CPPType *type) { return roles[role_of_type(type)].sortv; }

static int role_of(const FunctionRemap *r) {
  return role_of_type(r->_parameters[r->_parameters.size() - 1]._remap->_orig_type);
}

// ---- recording stand-ins for the emitters behind the decision
struct Call { int role; int args_type; int min_args; int max_args; };
#define MAXCALLS 4
static Call calls[2][MAXCALLS];
static int ncalls[2];
static int cur_run;

bool InterfaceMakerPythonNative::
write_function_instance(std::ostream &out, FunctionRemap *remap, int min_num_args, int max_num_args,
                        std::string &expected_params, int indent_level, bool coercion_allowed, bool report_errors,
                        ArgsType args_type, int return_flags, bool check_exceptions, const std::string &first_pexpr) {
  int n = ncalls[cur_run];
  ASSERT(n < MAXCALLS, "C14 model: at most one write_function_instance per overload and pass");
  calls[cur_run][n].role = role_of(remap);
  calls[cur_run][n].args_type = (int)args_type;
  calls[cur_run][n].min_args = min_num_args;
  calls[cur_run][n].max_args = max_num_args;
  ncalls[cur_run] = n + 1;
  return false;               // "may fall through": the next overload is still live code
}
void FunctionRemap::
write_orig_prototype(std::ostream &out, int indent_level, bool local, int num_default_args) const {
  out << (char)('A' + role_of(this));
}

static FunctionRemap *__attribute__((noinline)) raw_pool() { return (FunctionRemap *)::operator new(2 * sizeof(FunctionRemap)); }
static ParameterRemap *__attribute__((noinline)) raw_param() { return (ParameterRemap *)::operator new(sizeof(ParameterRemap)); }
static InterfaceMakerPythonNative *__attribute__((noinline)) raw_maker() {
  return (InterfaceMakerPythonNative *)::operator new(sizeof(InterfaceMakerPythonNative));
}

// one run: overload `role` = slot ^ swap; slot 0 has the lower address (both slots lie in ONE allocation)
static std::ostream *__attribute__((noinline)) one_run(int run, int swap, int has_this) {
  cur_run = run;
  ncalls[run] = 0;
  FunctionRemap *pool = raw_pool();
  for (int slot = 0; slot < 2; slot++) {
    int role = slot ^ swap;
    FunctionRemap *r = &pool[slot];
    new (&r->_parameters) FunctionRemap::Parameters();
    new (&r->_function_signature) std::string(role == 0 ? "f(A *)" : "f(B *)");
    r->_const_method = false;
    r->_has_this = (has_this != 0);
    r->_parameters.reserve(2);
    for (int x = 0; x <= has_this; x++) {
      r->_parameters.emplace_back();
      FunctionRemap::Parameter &p = r->_parameters[x];
      ParameterRemap *pr = raw_param();
      pr->_orig_type = (CPPType *)&type_token[role];
      p._remap = pr;
      p._has_name = true;
      if (x == has_this) {
        for (int c = 0; c < NL; c++) p._name.push_back(roles[role].name[c]);
      } else {
        p._name.push_back('t');          // the "this" parameter
      }
    }
  }
  // The overload set, as std::set<FunctionRemap *> builds it for two keys with pool[0] < pool[1] (address order inside one
  // allocation): root = lower address (black), right child = higher address (red).  Built node by node instead of
  // through insert(): std::less<T *> compares integer casts of the addresses, which the solver cannot fold for symbolic
  // execution; the shape is exactly what insert() produces natively in either insertion order.
  typedef std::set<FunctionRemap *> RemapSet;
  RemapSet *remaps_p = new RemapSet;
  RemapSet &remaps = *remaps_p;
  typedef std::_Rb_tree_node<FunctionRemap *> Node;
  Node *n0 = (Node *)::operator new(sizeof(Node));
  Node *n1 = (Node *)::operator new(sizeof(Node));
  *n0->_M_valptr() = &pool[0];
  *n1->_M_valptr() = &pool[1];
  std::_Rb_tree_node_base &hd = remaps._M_t._M_impl._M_header;
  n0->_M_color = std::_S_black; n0->_M_parent = &hd; n0->_M_left = nullptr; n0->_M_right = n1;
  n1->_M_color = std::_S_red;   n1->_M_parent = n0;  n1->_M_left = nullptr; n1->_M_right = nullptr;
  hd._M_parent = n0; hd._M_left = n0; hd._M_right = n1;
  remaps._M_t._M_impl._M_node_count = 2;
  std::ostream *out = vs_ostream_new();
  std::string expected_params;
  std::string first_pexpr;
  raw_maker()->write_function_forset(*out, remaps, 1, 1, expected_params, 0, /*coercion_allowed*/ false,
                                     /*report_errors*/ false, InterfaceMaker::AT_keyword_args, 0,
                                     /*check_exceptions*/ true, /*verify_const*/ false, first_pexpr);
  return out;
}

static void __attribute__((noinline)) scenario(int has_this) {
  std::ostream *o0 = one_run(0, 0, has_this);
  std::ostream *o1 = one_run(1, 1, has_this);
  bool same_name = true;
  for (int c = 0; c < NL; c++) if (roles[0].name[c] != roles[1].name[c]) same_name = false;
  // the decision: ExtractArg (args_type AT_single_arg handed on) iff every overload uses the same keyword
  int want = same_name ? (int)InterfaceMaker::AT_single_arg : (int)InterfaceMaker::AT_keyword_args;
  ASSERT(ncalls[0] == 2 && ncalls[1] == 2, "C14 each of the two overloads is emitted once");
  for (int i = 0; i < 2; i++) {
    ASSERT(calls[0][i].args_type == want,
           "C14 the single argument is extracted by keyword exactly when all one-argument overloads share the parameter name");
    ASSERT(calls[0][i].role == calls[1][i].role && calls[0][i].args_type == calls[1][i].args_type &&
           calls[0][i].min_args == calls[1][i].min_args && calls[0][i].max_args == calls[1][i].max_args,
           "C14 overloads are emitted in the same order with the same argument convention whichever remap has the lower address");
  }
  ASSERT(calls[0][0].role != calls[0][1].role, "C14 both overloads are emitted");
  ASSERT(vs_ntokens(o0) == vs_ntokens(o1) && vs_same_output(o0, o1),
         "C14 the emitted code (keyword name passed to Dtool_ExtractArg included) does not depend on which remap has the lower address");
}

// The two names share a symbolic prefix of `variant` letters, differ at position `variant` ('w' / 's') and are
// independent symbolic letters behind it; variant == NL: equal names.  (The position of the first difference is
// enumerated concretely so that the ExtractArg branch - and with it the number of tokens in the stream model - stays
// a constant for symbolic execution; the letters themselves are symbolic.)
static char sym[2][NL];
static void __attribute__((noinline)) set_names(int variant) {
  for (int c = 0; c < NL; c++) {
    roles[0].name[c] = sym[0][c];
    roles[1].name[c] = (c < variant) ? sym[0][c] : sym[1][c];
  }
  if (variant < NL) { roles[0].name[variant] = 'w'; roles[1].name[variant] = 's'; }
}

extern "C" void harness_c14_forset_kwname() {
  for (int role = 0; role < 2; role++) {
    for (int c = 0; c < NL; c++) {
#ifdef CONCRETE_NAMES
      // quick tier: the letters are those of "width" / "scale" (a self-comparison of a string with symbolic letters, as a
      // broken name check may perform, is not folded by symbolic execution and makes the token count symbolic)
      char ch = (role == 0 ? "width" : "scale")[c % 5];
#else
      char ch = nondet_char();
      ASSUME(ch >= 'a' && ch <= 'z');
#endif
      sym[role][c] = ch;
    }
  }
  // the specificity order of the two overloads (A first / B first) is enumerated concretely: a symbolic order would make
  // every remap pointer behind std::sort symbolic; that the REAL comparator is tie-free is c14_overload_order's claim
  for (int variant = VLO; variant <= VHI; variant++) for (int dir = 0; dir <= DIRHI; dir++) {
    roles[0].sortv = dir ? 2 : 1;
    roles[1].sortv = dir ? 1 : 2;
    set_names(variant);
#ifdef HAS_THIS
    scenario(HAS_THIS);
#else
    scenario(0);
    scenario(1);
#endif
  }
  WITNESS();
}
