// C13 (d): by-name lookups reflect all loaded files, including files loaded after a lookup has already been answered.
//
// History:  [lookups]  load file A  [lookups]  load file B  lookups.
// Which of the six by-name tables (type name / scoped name / true name, manifest name, element name / scoped name) have
// been consulted - and therefore cached - at each of the two earlier points is SYMBOLIC (2 x 6 bits: every interleaving
// of queries with the two load requests); the answers given at those points are checked too (they must reflect exactly
// the files loaded so far).  What file B contributes is chosen per catalogue entry (KIND bit mask: 1 = a new type "U",
// 2 = a manifest "n", 4 = an element "f"; B always re-declares A's type "T", like every real file re-declares int/void, and
// its manifest/element are of that type).  Files are loaded the way InterrogateDatabase::read does it: a disjoint index
// range per file, merged with the real merge_from.
//
// Oracle after the second load: each of the six lookups returns, for every name of A and of B, the index of the record
// carrying that name, and 0 for a name no file has; the records of B are reachable by index and their type reference
// points at the surviving "T".
#include "verif.h"
#include "interrogateDatabase.h"
// lookup() calls its freshen_* argument through a pointer to member function.  Across translation units the Itanium
// "is it virtual" test on the function address and the indirect call stay in the IR and symbolic execution then runs all
// six freshen functions under unknown conditions (no verdict); compiled in one unit with its inline callers
// lookup_*_by_name the compiler resolves the member pointer (lookup is inlined into each caller).  The native replay
// links the separately compiled interrogateDatabase.cxx as usual.
#ifndef VERIF_NATIVE
#include "interrogateDatabase.cxx"
#endif
#include <string>
#include <vector>

// Cut point: the by-name caches are std::map<std::string,int>; clear() frees the old nodes with the recursive
// _Rb_tree::_M_erase.  Once a cache was filled under a symbolic condition its root is "node or null", and symbolic execution of
// the real _M_erase then follows invalid-pointer reads down to the recursion bound (exponential, no verdict in 10 min).
// It is replaced by "leak the nodes": clear() still resets the header with the real code; freeing has no observable effect.
#ifndef VERIF_NATIVE
typedef std::_Rb_tree<std::string, std::pair<const std::string, int>, std::_Select1st<std::pair<const std::string, int> >,
                      std::less<std::string>, std::allocator<std::pair<const std::string, int> > > LookupTree;
template<> void LookupTree::_M_erase(LookupTree::_Link_type) {}
#endif

#ifndef KIND
#define KIND 7
#endif
#ifndef SYMASK
#define SYMASK 1       // 1: which tables are consulted at the two earlier points is symbolic
#endif
#ifndef EARLY
#define EARLY 1        // 1: also a symbolic round of lookups before the first file is loaded
#endif

static std::string *str(char a, char b = 0) {
  std::string *s = new std::string;
  s->push_back(a);
  if (b) s->push_back(b);
  return s;
}
static void set(std::string &s, char a, char b = 0) { s.push_back(a); if (b) s.push_back(b); }

static InterrogateDatabase *new_db() {
  InterrogateDatabase *db = new InterrogateDatabase;
  db->_global_types.reserve(8);
  db->_all_types.reserve(8);
  db->_global_elements.reserve(4);
  db->_global_manifests.reserve(4);
  return db;
}

// names: type c -> name "c", scoped name "sc", true name "tc"; element c -> name "c", scoped name "sc"; manifest c -> "c"
static void put_type(InterrogateDatabase *db, int index, char c, int flags) {
  InterrogateType *t = new InterrogateType;
  set(t->_name, c); set(t->_scoped_name, 's', c); set(t->_true_name, 't', c);
  t->_flags = flags;
  db->add_type(index, *t);
}
static void put_manifest(InterrogateDatabase *db, int index, char c, int type) {
  InterrogateManifest *m = new InterrogateManifest;
  set(m->_name, c);
  m->_flags = 1;   // has_type
  m->_type = type;
  db->add_manifest(index, *m);
}
static void put_element(InterrogateDatabase *db, int index, char c, int type) {
  InterrogateElement *e = new InterrogateElement;
  set(e->_name, c); set(e->_scoped_name, 's', c);
  e->_flags = 1;   // global
  e->_type = type;
  db->add_element(index, *e);
}

enum { A_T = 1, A_M = 2, A_E = 3, B_T = 11, B_U = 12, B_N = 13, B_F = 14 };
static const int FD = 0x2000, GL = 1;

static InterrogateDatabase *file_a() {
  InterrogateDatabase *db = new_db();
  put_type(db, A_T, 'T', FD | GL);
  put_manifest(db, A_M, 'm', A_T);
  put_element(db, A_E, 'e', A_T);
  return db;
}
static InterrogateDatabase *file_b() {
  InterrogateDatabase *db = new_db();
  put_type(db, B_T, 'T', 0);                         // forward declaration of A's type
  if (KIND & 1) put_type(db, B_U, 'U', FD | GL);
  if (KIND & 2) put_manifest(db, B_N, 'n', B_T);
  if (KIND & 4) put_element(db, B_F, 'f', B_T);
  return db;
}

// One round of lookups; table k is consulted iff ask[k].  loaded = number of files loaded so far (0, 1, 2).
// Own function per table so that the queries do not share loop counters.
static void __attribute__((noinline)) ask_types(InterrogateDatabase *m, const bool *ask, int loaded) {
  int t = loaded >= 1 ? A_T : 0, u = (loaded >= 2 && (KIND & 1)) ? B_U : 0;
  if (ask[0]) {
    ASSERT(m->lookup_type_by_name(*str('T')) == t, "C13 lookup_type_by_name reflects exactly the files loaded so far (type of the first file)");
    ASSERT(m->lookup_type_by_name(*str('U')) == u, "C13 lookup_type_by_name reflects exactly the files loaded so far (type of the second file)");
    ASSERT(m->lookup_type_by_name(*str('Z')) == 0, "C13 lookup_type_by_name: unknown name");
  }
  if (ask[1]) {
    ASSERT(m->lookup_type_by_scoped_name(*str('s', 'T')) == t, "C13 lookup_type_by_scoped_name reflects exactly the files loaded so far (type of the first file)");
    ASSERT(m->lookup_type_by_scoped_name(*str('s', 'U')) == u, "C13 lookup_type_by_scoped_name reflects exactly the files loaded so far (type of the second file)");
    ASSERT(m->lookup_type_by_scoped_name(*str('T')) == 0, "C13 lookup_type_by_scoped_name: unknown name");
  }
  if (ask[2]) {
    ASSERT(m->lookup_type_by_true_name(*str('t', 'T')) == t, "C13 lookup_type_by_true_name reflects exactly the files loaded so far (type of the first file)");
    ASSERT(m->lookup_type_by_true_name(*str('t', 'U')) == u, "C13 lookup_type_by_true_name reflects exactly the files loaded so far (type of the second file)");
    ASSERT(m->lookup_type_by_true_name(*str('T')) == 0, "C13 lookup_type_by_true_name: unknown name");
  }
}
static void __attribute__((noinline)) ask_others(InterrogateDatabase *m, const bool *ask, int loaded) {
  int am = loaded >= 1 ? A_M : 0, ae = loaded >= 1 ? A_E : 0;
  int bn = (loaded >= 2 && (KIND & 2)) ? B_N : 0, bf = (loaded >= 2 && (KIND & 4)) ? B_F : 0;
  if (ask[3]) {
    ASSERT(m->lookup_manifest_by_name(*str('m')) == am, "C13 lookup_manifest_by_name reflects exactly the files loaded so far (manifest of the first file)");
    ASSERT(m->lookup_manifest_by_name(*str('n')) == bn, "C13 lookup_manifest_by_name reflects exactly the files loaded so far (manifest of the second file)");
    ASSERT(m->lookup_manifest_by_name(*str('Z')) == 0, "C13 lookup_manifest_by_name: unknown name");
  }
  if (ask[4]) {
    ASSERT(m->lookup_element_by_name(*str('e')) == ae, "C13 lookup_element_by_name reflects exactly the files loaded so far (element of the first file)");
    ASSERT(m->lookup_element_by_name(*str('f')) == bf, "C13 lookup_element_by_name reflects exactly the files loaded so far (element of the second file)");
    ASSERT(m->lookup_element_by_name(*str('Z')) == 0, "C13 lookup_element_by_name: unknown name");
  }
  if (ask[5]) {
    ASSERT(m->lookup_element_by_scoped_name(*str('s', 'e')) == ae, "C13 lookup_element_by_scoped_name reflects exactly the files loaded so far (element of the first file)");
    ASSERT(m->lookup_element_by_scoped_name(*str('s', 'f')) == bf, "C13 lookup_element_by_scoped_name reflects exactly the files loaded so far (element of the second file)");
    ASSERT(m->lookup_element_by_scoped_name(*str('e')) == 0, "C13 lookup_element_by_scoped_name: unknown name");
  }
}

extern "C" void harness_c13_lookups() {
  __ll2c_global_ctors();
  InterrogateDatabase *a = file_a();
  InterrogateDatabase *b = file_b();
  InterrogateDatabase *m = new_db();
  bool ask0[6], ask1[6], all[6];
  for (int k = 0; k < 6; k++) {
    ask0[k] = ask1[k] = all[k] = true;
#if SYMASK
    if (EARLY) ask0[k] = nondet_bool();
    ask1[k] = nondet_bool();
#endif
  }

#if EARLY
  ask_types(m, ask0, 0); ask_others(m, ask0, 0);
#endif
  m->merge_from(*a);
  ask_types(m, ask1, 1); ask_others(m, ask1, 1);
  m->merge_from(*b);
  ask_types(m, all, 2); ask_others(m, all, 2);

  // the late file's records themselves, and their references into the type both files share
  ASSERT((int)m->_type_map.size() == ((KIND & 1) ? 2 : 1), "C13 merge_from: the re-declared type is identified with the loaded one");
  if (KIND & 2) ASSERT(m->get_manifest(B_N)._type == A_T && m->get_num_global_manifests() == 2 && m->get_global_manifest(1) == B_N,
                       "C13 merge_from: the late file's manifest is enumerated and refers to the surviving type");
  if (KIND & 4) ASSERT(m->get_element(B_F)._type == A_T && m->get_num_global_elements() == 2 && m->get_global_element(1) == B_F,
                       "C13 merge_from: the late file's element is enumerated and refers to the surviving type");
  WITNESS();
}

extern "C" void harness_c13_dbg() {
  __ll2c_global_ctors();
  InterrogateDatabase *db = new_db();
#if DBG == 1
  put_manifest(db, 2, 'm', 1);
#elif DBG == 2
  put_element(db, 2, 'm', 1);
#elif DBG == 3
  put_type(db, 2, 'm', 1);
#elif DBG == 4
  db->merge_from(*file_a());
#elif DBG == 5
  ASSERT(db->lookup_manifest_by_name(*str('m')) == 0, "C13 x");
  db->merge_from(*file_a());
#elif DBG == 6
  db->merge_from(*file_a());
  ASSERT(db->lookup_manifest_by_name(*str('m')) == A_M, "C13 x");
  ASSERT(db->lookup_manifest_by_name(*str('n')) == 0, "C13 x");
#endif
  WITNESS();
}
