// C13 (d): by-name lookups reflect all loaded files, including files loaded after a lookup has already been answered.
//
// History:  lookups - load file A - lookups - load file B - lookups.
// All six by-name tables (type name / scoped name / true name, manifest name, element name / scoped name) are consulted -
// and therefore cached - at every point; a cached answer is what can go stale, so this history dominates those that ask
// less.  The answers at the earlier points are checked too (they must reflect exactly the files loaded so far).  What file B
// contributes is chosen per catalogue entry (KIND bit mask: 1 = a new type "U", 2 = a manifest "n", 4 = an element "f"; B
// always re-declares A's type "T", like every real file re-declares int/void, and its manifest/element are of that type).
// Files are loaded the way InterrogateDatabase::read does it: a disjoint index range per file, merged with the real
// merge_from.
//
// The history and the names are CONCRETE (symbolic only: whether B's new type / element is global).  Attempts that did not
// fit: a symbolic choice of the tables consulted at the earlier points (every cache root becomes "node or null", reads
// through the null alternative yield unconstrained pointers and string lengths: out of 15 GB), a symbolic query name
// (same effect inside find(): 13 GB), symbolic global / fully-defined flags of the shared type (the merged record's
// name strings become "either copy": 15 GB; c13_merge_from decides those).
//
// Oracle: at every point each of the six lookups returns, for A's name, B's name and an unknown name, the index of the
// record carrying that name in the files loaded so far, else 0; the records of B are reachable by index, their type
// reference points at the surviving "T" and they appear in the enumerations.
#include "verif.h"
#include "interrogateDatabase.h"
// lookup() calls its freshen_* argument through a pointer to member function.  Across translation units the Itanium
// "is it virtual" test on the function address and the indirect call stay in the IR and symbolic execution then runs all
// six freshen functions under unknown conditions (no verdict); compiled in one unit with its inline callers
// lookup_*_by_name the compiler resolves the member pointer (lookup is inlined into each caller).  The native replay
// links the separately compiled interrogateDatabase.cxx as usual.
#ifndef VERIF_NATIVE
#include "interrogateDatabase.cxx"
#endif
#include <string>
#include <vector>

#ifndef KIND
#define KIND 7
#endif
#ifndef EARLY
#define EARLY 1        // 1: also a round of lookups before the first file is loaded
#endif

static std::string *str(char a, char b = 0) {
  std::string *s = new std::string;
  s->push_back(a);
  if (b) s->push_back(b);
  return s;
}
static void set(std::string &s, char a, char b = 0) { s.push_back(a); if (b) s.push_back(b); }

static InterrogateDatabase *new_db() {
  InterrogateDatabase *db = new InterrogateDatabase;
  db->_global_types.reserve(8);
  db->_all_types.reserve(8);
  db->_global_elements.reserve(4);
  db->_global_manifests.reserve(4);
  return db;
}

// names: type c -> name "c", scoped name "sc", true name "tc"; element c -> name "c", scoped name "sc"; manifest c -> "c"
static void put_type(InterrogateDatabase *db, int index, char c, int flags) {
  InterrogateType *t = new InterrogateType;
  set(t->_name, c); set(t->_scoped_name, 's', c); set(t->_true_name, 't', c);
  t->_flags = flags;
  db->add_type(index, *t);
}
static void put_manifest(InterrogateDatabase *db, int index, char c, int type) {
  InterrogateManifest *m = new InterrogateManifest;
  set(m->_name, c);
  m->_flags = 1;   // has_type
  m->_type = type;
  db->add_manifest(index, *m);
}
static void put_element(InterrogateDatabase *db, int index, char c, int type, int flags = 1 /* global */) {
  InterrogateElement *e = new InterrogateElement;
  set(e->_name, c); set(e->_scoped_name, 's', c);
  e->_flags = flags;
  e->_type = type;
  db->add_element(index, *e);
}

enum { A_T = 1, A_M = 2, A_E = 3, B_T = 11, B_U = 12, B_N = 13, B_F = 14 };
static const int FD = 0x2000, GL = 1;

static InterrogateDatabase *file_a(int t_flags) {
  InterrogateDatabase *db = new_db();
  put_type(db, A_T, 'T', t_flags);
  put_manifest(db, A_M, 'm', A_T);
  put_element(db, A_E, 'e', A_T);
  return db;
}
static InterrogateDatabase *file_b(int t_flags, bool u_global, bool f_global) {
  InterrogateDatabase *db = new_db();
  put_type(db, B_T, 'T', t_flags);                   // A's type again
  if (KIND & 1) put_type(db, B_U, 'U', FD | (u_global ? GL : 0));
  if (KIND & 2) put_manifest(db, B_N, 'n', B_T);
  if (KIND & 4) put_element(db, B_F, 'f', B_T, f_global ? 1 : 0);
  return db;
}

// One round of lookups.  loaded = number of files loaded so far (0, 1, 2).
static void __attribute__((noinline)) ask_types(InterrogateDatabase *m, int loaded) {
  int t = loaded >= 1 ? A_T : 0, u = (loaded >= 2 && (KIND & 1)) ? B_U : 0;
  {
    ASSERT(m->lookup_type_by_name(*str('T')) == t, "C13 lookup_type_by_name reflects exactly the files loaded so far (type of the first file)");
    ASSERT(m->lookup_type_by_name(*str('U')) == u, "C13 lookup_type_by_name reflects exactly the files loaded so far (type of the second file)");
    ASSERT(m->lookup_type_by_name(*str('Z')) == 0, "C13 lookup_type_by_name: unknown name");
  }
  {
    ASSERT(m->lookup_type_by_scoped_name(*str('s', 'T')) == t, "C13 lookup_type_by_scoped_name reflects exactly the files loaded so far (type of the first file)");
    ASSERT(m->lookup_type_by_scoped_name(*str('s', 'U')) == u, "C13 lookup_type_by_scoped_name reflects exactly the files loaded so far (type of the second file)");
    ASSERT(m->lookup_type_by_scoped_name(*str('T')) == 0, "C13 lookup_type_by_scoped_name: unknown name");
  }
  {
    ASSERT(m->lookup_type_by_true_name(*str('t', 'T')) == t, "C13 lookup_type_by_true_name reflects exactly the files loaded so far (type of the first file)");
    ASSERT(m->lookup_type_by_true_name(*str('t', 'U')) == u, "C13 lookup_type_by_true_name reflects exactly the files loaded so far (type of the second file)");
    ASSERT(m->lookup_type_by_true_name(*str('T')) == 0, "C13 lookup_type_by_true_name: unknown name");
  }
}
static void __attribute__((noinline)) ask_others(InterrogateDatabase *m, int loaded) {
  int am = loaded >= 1 ? A_M : 0, ae = loaded >= 1 ? A_E : 0;
  int bn = (loaded >= 2 && (KIND & 2)) ? B_N : 0, bf = (loaded >= 2 && (KIND & 4)) ? B_F : 0;
  {
    ASSERT(m->lookup_manifest_by_name(*str('m')) == am, "C13 lookup_manifest_by_name reflects exactly the files loaded so far (manifest of the first file)");
    ASSERT(m->lookup_manifest_by_name(*str('n')) == bn, "C13 lookup_manifest_by_name reflects exactly the files loaded so far (manifest of the second file)");
    ASSERT(m->lookup_manifest_by_name(*str('Z')) == 0, "C13 lookup_manifest_by_name: unknown name");
  }
  {
    ASSERT(m->lookup_element_by_name(*str('e')) == ae, "C13 lookup_element_by_name reflects exactly the files loaded so far (element of the first file)");
    ASSERT(m->lookup_element_by_name(*str('f')) == bf, "C13 lookup_element_by_name reflects exactly the files loaded so far (element of the second file)");
    ASSERT(m->lookup_element_by_name(*str('Z')) == 0, "C13 lookup_element_by_name: unknown name");
  }
  {
    ASSERT(m->lookup_element_by_scoped_name(*str('s', 'e')) == ae, "C13 lookup_element_by_scoped_name reflects exactly the files loaded so far (element of the first file)");
    ASSERT(m->lookup_element_by_scoped_name(*str('s', 'f')) == bf, "C13 lookup_element_by_scoped_name reflects exactly the files loaded so far (element of the second file)");
    ASSERT(m->lookup_element_by_scoped_name(*str('e')) == 0, "C13 lookup_element_by_scoped_name: unknown name");
  }
}

extern "C" void harness_c13_lookups() {
  __ll2c_global_ctors();
  // the shared type: defined and global in A, forward declared in B
  int ta = GL | FD, tb = 0;
  InterrogateDatabase *a = file_a(ta);
  bool u_global = (KIND & 1) ? nondet_bool() : false, f_global = (KIND & 4) ? nondet_bool() : false;
  InterrogateDatabase *b = file_b(tb, u_global, f_global);
  InterrogateDatabase *m = new_db();
#if EARLY
  ask_types(m, 0); ask_others(m, 0);
#endif
  m->merge_from(*a);
  ask_types(m, 1); ask_others(m, 1);
  m->merge_from(*b);
  ask_types(m, 2); ask_others(m, 2);

  // the late file's records themselves, and their references into the type both files share
  ASSERT((int)m->_type_map.size() == ((KIND & 1) ? 2 : 1), "C13 merge_from: the re-declared type is identified with the loaded one");
  ASSERT(m->get_type(A_T).is_global() == (((ta | tb) & GL) != 0) && m->get_type(A_T).is_fully_defined() == (((ta | tb) & FD) != 0),
         "C13 merge_from: the shared type is global / fully defined iff either file says so");
  ASSERT(m->get_num_global_types() == (((ta | tb) & GL) ? 1 : 0) + (u_global ? 1 : 0), "C13 merge_from: get_num_global_types counts the global types once each");
  if (KIND & 2) ASSERT(m->get_manifest(B_N)._type == A_T && m->get_num_global_manifests() == 2 && m->get_global_manifest(1) == B_N,
                       "C13 merge_from: the late file's manifest is enumerated and refers to the surviving type");
  if (KIND & 4) ASSERT(m->get_element(B_F)._type == A_T && m->get_num_global_elements() == (f_global ? 2 : 1) &&
                       (!f_global || m->get_global_element(1) == B_F),
                       "C13 merge_from: the late file's element refers to the surviving type and is enumerated iff global");
  if (KIND & 1) ASSERT(m->get_num_all_types() == 2 && m->get_all_type(1) == B_U &&
                       (!u_global || m->get_global_type(m->get_num_global_types() - 1) == B_U),
                       "C13 merge_from: the late file's new type is enumerated, among the global types iff global");
  WITNESS();
}
