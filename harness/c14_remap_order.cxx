// C14 (output is a pure function of the inputs): the -python-native dispatch code tries the overloads of a function in
// the order std::sort(remaps, RemapCompareLess) leaves them in; the vector comes from a std::set<FunctionRemap *>, i.e.
// in ADDRESS order.  Whenever the comparator ties on two distinct overloads, std::sort keeps an address-dependent
// order and the generated file depends on heap layout (ASLR, allocator tunables, environment size).  So the
// comparator must be a TOTAL order on the distinct overloads of a set: for two different signatures exactly one of
// less(a,b), less(b,a) holds, and the verdict is the same whichever of the two objects has the lower address.
#include "verif.h"
#include "functionRemap.h"
#include "parameterRemap.h"
#include <new>
#include <string>

bool RemapCompareLess(FunctionRemap *in1, FunctionRemap *in2);
int get_type_sort(CPPType *type);
bool mangle_names = true;     // defined in interrogate.cxx (a main file, never linked)

#ifndef PMAX
#define PMAX 2
#endif
// get_type_sort is a cut point: an uninterpreted table, one symbolic sort value per parameter slot (equal values =
// same sort class, e.g. f(A *) and f(B *))
static char type_token[2][PMAX];
static int sort_value[2][PMAX];
int get_type_sort(CPPType *type) {
  long off = (char *)type - &type_token[0][0];
  ASSERT(off >= 0 && off < 2 * PMAX, "C14 model: get_type_sort called on a parameter type of the remaps");
  return sort_value[off / PMAX][off % PMAX];
}
static FunctionRemap *__attribute__((noinline)) raw_remap() { return (FunctionRemap *)::operator new(sizeof(FunctionRemap)); }
static ParameterRemap *__attribute__((noinline)) raw_param() { return (ParameterRemap *)::operator new(sizeof(ParameterRemap)); }
static FunctionRemap *the_remaps[2];

static void __attribute__((noinline)) order_case(int c0, int c1) {
  FunctionRemap **r = the_remaps;
  r[0]->_parameters._M_impl._M_finish = r[0]->_parameters._M_impl._M_start + c0;
  r[1]->_parameters._M_impl._M_finish = r[1]->_parameters._M_impl._M_start + c1;
  // two overloads without parameters and with the same constness cannot both exist
  if (c0 == 0 && c1 == 0 && r[0]->_const_method == r[1]->_const_method) return;
  bool l01 = RemapCompareLess(r[0], r[1]);
  bool l10 = RemapCompareLess(r[1], r[0]);
  ASSERT(!(l01 && l10), "C14 overload order is asymmetric");
  ASSERT(l01 || l10, "C14 two distinct overloads are never tied: the order of the generated dispatch code cannot depend on object addresses");
}

extern "C" void harness_c14_overload_order() {
  for (int i = 0; i < 2; i++) {
    FunctionRemap *r = raw_remap();
    the_remaps[i] = r;
    new (&r->_parameters) FunctionRemap::Parameters();
    // what identifies an overload: its signature (distinct within an overload set)
    new (&r->_function_signature) std::string(i == 0 ? "f(A *)" : "f(B *)");
    r->_const_method = nondet_bool();
    r->_parameters.reserve(PMAX);
    for (int x = 0; x < PMAX; x++) {
      ParameterRemap *pr = raw_param();
      pr->_orig_type = (CPPType *)&type_token[i][x];
      sort_value[i][x] = nondet_int();
      r->_parameters.emplace_back();
      r->_parameters[x]._remap = pr;
    }
  }
  for (int c0 = 0; c0 <= PMAX; c0++)
    for (int c1 = 0; c1 <= PMAX; c1++)
      order_case(c0, c1);
  WITNESS();
}
