// C19 / C16(exit clause): the real main() of interrogate_module.cxx with a symbolic fault schedule.
// write_python_table[_native], interrogate_request_database, interrogate_error_flag and Filename::unlink are
// stand-ins; MODE selects -c (0), -python (1) or -python-native (2) concretely.
#include "verif.h"
#include "vstream.h"
#include "filename.h"
#include <getopt.h>
#include <iostream>

extern "C" {
void vs_set_fault_mode(unsigned);
unsigned vs_get_any_lost();
unsigned vs_get_open_ok();
extern int verif_exited, verif_exit_code;
}
#ifndef MODE
#define MODE 1
#endif
#ifndef WANT_OC
#define WANT_OC 1
#endif
int real_main(int, char **) asm("main");

static bool g_error_flag, g_unlinked, g_want_oc;
static int g_opt_step, g_tables;

void preprocess_argv(int &, char **&) {}
extern const char interrogate_preamble_python_native[];
const char interrogate_preamble_python_native[] = "p\n";
int write_python_table(std::ostream &out) { g_tables++; out << "a" << 1 << "\n"; return 1; }
int write_python_table_native(std::ostream &out) { g_tables++; out << "b" << 2 << "\n"; return 1; }
extern "C" void interrogate_request_database(const char *) {}
extern "C" bool interrogate_error_flag() { return g_error_flag; }
bool Filename::unlink() const { g_unlinked = true; return true; }

static char g_optarg[] = "o";
int my_getopt(int argc, char *const *argv, const char *so, const struct option *lo, int *idx) asm("getopt_long_only");
int my_getopt(int argc, char *const *argv, const char *so, const struct option *lo, int *idx) {
  // [-oc o] then the mode flag (-c is index 3, -python 4, -python-native 5 of the real table)
  if (g_opt_step == 0) { g_opt_step = 1; if (g_want_oc) { optarg = g_optarg; return lo[0].val; } }
  if (g_opt_step == 1) { g_opt_step = 2; return lo[3 + MODE].val; }
  optind = 1;
  return -1;
}
int my_stat(const char *, void *) asm("stat");
int my_stat(const char *, void *) { return -1; }
static int g_errno;
int *my_errno() asm("__errno_location");
int *my_errno() { return &g_errno; }

static void check_exit(int rc) {
  ASSERT(!(vs_get_any_lost() && rc == 0), "C19 a failed or incomplete output write gives a non-zero exit status");
  // the output file exists only if it was opened successfully
  ASSERT(!(g_error_flag && (rc == 0 || (vs_get_open_ok() > 0 && !g_unlinked))),
         "C16 a database that fails to load gives a non-zero exit status and the output file is removed");
}
extern "C" void verif_at_exit() { check_exit(verif_exit_code); }

extern "C" void harness_c19_module_main() {
  g_error_flag = nondet_bool();
  g_want_oc = (WANT_OC != 0);   // concrete per catalogue entry: a symbolic choice makes the file-name string symbolic
  __ll2c_global_ctors();
  vs_set_fault_mode(1);
  static char a0[] = "interrogate_module", a1[] = "l.in";
  char *argv[3] = {a0, a1, 0};
  int rc = real_main(2, argv);
  check_exit(rc);
  WITNESS();
}
