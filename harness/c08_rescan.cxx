// C08 / C15: suppression of self-referential expansion on the lexer-driven path.
// get_identifier() expands a macro name unless should_ignore_manifest() says its replacement list is being rescanned;
// the replacement list is pushed by push_expansion().  The invariant that bounds the expansion depth by the number
// of macros (and gives "f(x) f(x)+1" the conforming result instead of unbounded recursion) is one inductive step:
//   after push_expansion(text, m) -- from an arbitrary stack of pending expansions -- m is ignored for as long as
//   that input is on the stack, whatever kind of macro m is, and every macro ignored before is still ignored.
// The kind of each macro (object-like / function-like, parameter count) and the shape of the pending stack are
// symbolic; the InputFile's std::istringstream is not needed for the invariant (connect_input is a cut point).
#include "verif.h"
#include "cppPreprocessor.h"
#include "cppManifest.h"

bool CPPPreprocessor::InputFile::connect_input(const std::string &input) { return true; }

static CPPManifest *make_manifest(CPPPreprocessor *pp, const char *name) {
  CPPManifest *m = new CPPManifest(*pp, std::string(name), std::string("1"));
  m->_has_parameters = nondet_bool();
  m->_num_parameters = m->_has_parameters ? (nondet_bool() ? 1 : 0) : 0;
  return m;
}

extern "C" void harness_c08_self_suppress() {
  CPPPreprocessor *pp = new CPPPreprocessor;
  pp->_infile = nullptr;
  pp->_last_c = '\0';
  CPPManifest *m[3];
  m[0] = make_manifest(pp, "f");
  m[1] = make_manifest(pp, "g");
  m[2] = make_manifest(pp, "h");
  YYLTYPE loc;
  loc.first_line = 1; loc.first_column = 1; loc.last_line = 1; loc.last_column = 1;

  // an arbitrary stack of pending expansions: DEPTH pushes, each of a symbolically chosen macro that is not ignored
  // at that moment (get_identifier only expands macros that are not ignored)
  bool ignored_before[3] = {false, false, false};
  for (int d = 0; d < DEPTH; d++) {
    unsigned k = nondet_uint(); ASSUME(k < 3);
    bool ign = false;
    for (int j = 0; j < 3; j++) if ((unsigned)j == k) ign = pp->should_ignore_manifest(m[j]);
    if (ign) continue;                         // the lexer would not expand it
    bool ok = false;
    for (int j = 0; j < 3; j++) if ((unsigned)j == k) ok = pp->push_expansion(std::string(" x "), m[j], loc);
    ASSERT(ok, "C08 push_expansion accepts the replacement text");
    for (int j = 0; j < 3; j++) {
      bool now = pp->should_ignore_manifest(m[j]);
      if ((unsigned)j == k) {
        ASSERT(now, "C08 a macro is not expanded again while its own replacement list is rescanned (self-reference suppression; unbounded recursion otherwise)");
      }
      if (ignored_before[j]) {
        ASSERT(now, "C08 a macro whose replacement list is still being rescanned stays suppressed in nested expansions");
      }
      ignored_before[j] = now;
    }
  }
  WITNESS();
}
