// C09, symbolic directive scripts: conditional inclusion keeps exactly the groups a conforming preprocessor keeps.
//
// MODE 0 (harness_c09_sym): a script of NL lines; the directive at EVERY position is a symbolic draw from the 17-kind
//   alphabet below (#if 1/0, #ifdef D/U, #ifndef U/D, #elif 1/0, #elifdef D/U, #elifndef U/D, #else, #endif, #define X,
//   #error e, text marker M); the only assumption is that the script is well nested up to depth DMAX (the property's
//   precondition; shorter scripts are covered through leading / trailing text lines).
//   The REAL process_directive and the REAL skip_false_if_block run over it; the oracle is an independent reference
//   interpreter of C11 6.10.1 written below (stack of open conditionals: group kept, some group already kept, #else seen).
//
//   STEP=1 (the main harness): ONE step of the directive dispatch from an ARBITRARY state the reference allows.
//     The implementation keeps no stack of conditionals: its whole state between two dispatches is the read position
//     plus "a skip to the next #elif*/#else/#endif is due".  Invariant (from the reference interpreter): in normal
//     state at line p the reference meets line p inside a kept group; with a skip due at line p, line p-1 is an
//     #if*/#elif* of an active conditional that has kept no group so far.  The step starts at a symbolic p in a symbolic
//     one of the two states, and the harness asserts that it ends at the start of a later line q in a state for which
//     the invariant holds again, and that the text lines / #define / #error acted upon between p and q are exactly the
//     reference's.  Line 0 is met at top level, so by induction over the steps every whole run keeps exactly the
//     reference's lines (the induction is the only part outside the solver; STEP=0 checks it at small NL).
//   STEP=0: the whole run from line 0 (symbolic execution accumulates the path guards of every skip loop: NL <= 5).
//
//   Why this terminates although c09_cond.cxx says symbolic line kinds do not:
//   (a) the command / argument strings are written straight into the SSO buffer of the caller's fresh std::string
//       (symbolic content and length <= 8, pointer concrete): no assign/_M_replace/_M_create on a symbolic length;
//       operator==(string, const char *) is replaced by a branch-free equivalent (the early-exit loops of strlen/memcmp
//       on a symbolic length make the path guards explode);
//   (b) skip_false_if_block -> handle_if*_directive -> skip_false_if_block is a recursion whose every level contains a
//       loop over the rest of the file from a symbolic read position: unrolled it has (3 * 2NL)^depth bodies.  The three
//       handle_if/ifdef/ifndef_directive bodies are therefore replaced by their contract "condition false => the call
//       skip_false_if_block(true) is the last thing that happens" in deferred form: the stub sets `pending` and the
//       driver performs the REAL skip_false_if_block(true) as its next step.  Every call of the three handlers in the
//       real code is in tail position (process_directive: only `_start_of_line = true; return '\n'` follow, which the
//       reader has established already; skip_false_if_block: `return` follows), so the sequence of reads is the same.
//       MODE 1 below checks that contract on the REAL handlers with the solver.
//   (c) YYLTYPE / CPPFile bookkeeping (loc.file = get_file()) is cut: it is below the conditional logic and costs more
//       symbolic execution than the code under test;
//   (d) the TUs are lowered without LLVM's optimisation passes (see cat/c09.py: CBMC miscounts the two loops LoopSimplify
//       makes of the one `while` in skip_false_if_block).
//   The unknown-directive branch of process_directive (string concatenation + warning) and the handlers of directives
//   outside the alphabet are cut without a definition: the asserting stubs prove them unreachable for this alphabet.
//
// MODE 1 (harness_c09_handle): the REAL handle_if_directive / handle_ifdef_directive / handle_ifndef_directive with a
//   symbolic choice of handler and argument ("0","1" / "D","U"); skip_false_if_block and the reader are recorders.
//   Asserts: skip_false_if_block is called exactly once, with consider_elifs == true, iff the condition is false, and
//   the handler itself reads nothing.
#include "verif.h"
#include "cppPreprocessor.h"
#include "cppExpressionParser.h"
#include "cppExpression.h"
#include <string>

#ifndef MODE
#define MODE 0
#endif
#ifndef NL
#define NL 7
#endif
#ifndef DMAX
#define DMAX 2
#endif
#ifndef STEP
#define STEP 1       // 1: one driver step from a symbolic state; 0: the whole run from line 0
#endif
#ifndef START
#define START (-1)   // STEP: line at which the step starts (-1: symbolic)
#endif
#ifndef PEND
#define PEND (-1)    // STEP: 0 normal state, 1 a skip is due, -1 symbolic
#endif

enum Kind {
  K_IF_T, K_IF_F, K_IFDEF_T, K_IFDEF_F, K_IFNDEF_T, K_IFNDEF_F,
  K_ELIF_T, K_ELIF_F, K_ELIFDEF_T, K_ELIFDEF_F, K_ELIFNDEF_T, K_ELIFNDEF_F,
  K_ELSE, K_ENDIF, K_DEFINE, K_ERROR, K_MARKER, K_COUNT
};
static inline bool is_open(int k) { return k <= K_IFNDEF_F; }
static inline bool is_elif(int k) { return k >= K_ELIF_T && k <= K_ELIFNDEF_F; }
static inline bool cond_true(int k) { return (k & 1) == 0; }           // the *_T kinds are the even ones

static const char WORD[K_COUNT][9] = {"if", "if", "ifdef", "ifdef", "ifndef", "ifndef", "elif", "elif", "elifdef", "elifdef",
                                      "elifndef", "elifndef", "else", "endif", "define", "error", ""};
static const unsigned char WLEN[K_COUNT] = {2, 2, 5, 5, 6, 6, 4, 4, 7, 7, 8, 8, 4, 5, 6, 5, 0};
static const char ARG[K_COUNT] = {'1', '0', 'D', 'U', 'U', 'D', '1', '0', 'D', 'U', 'U', 'D', 0, 0, 'X', 'e', 0};

static int protocol_error;

#if MODE == 0
static unsigned char kind[NL + 1];
static int rd_line;          // index of the line being read
static int rd_phase;         // 0 line start, 1 after '#', 2 after the marker character, 3 command pending, 4 args pending
static int cur_line;         // line of the directive whose command word was delivered last
static int pending;          // a handler found its condition false: skip_false_if_block(true) is due
static unsigned surv, defd, errd;

// ---- the line-level reader (maintains _start_of_line like the real get()) -------------------------------------------
// written with selects instead of branches: every symbolic branch that does not rejoin as a clean diamond makes the
// path guards of the symbolic execution grow
int CPPPreprocessor::get() {
  bool in = rd_line < NL;
  int k = kind[in ? rd_line : NL];       // kind[NL] is a sentinel
  bool mark = (k == K_MARKER);
  int ph = rd_phase;
  bool ok = in && ph <= 2;
  if (in && ph > 2) protocol_error = 1;
  int ret = !ok ? EOF : ph == 0 ? (mark ? 'M' : '#') : ph == 1 ? 'x' : '\n';
  bool sol = _start_of_line;
  _start_of_line = !ok ? sol : ph == 0 ? (mark ? false : sol) : ph == 1 ? false : true;
  rd_phase = !ok ? ph : ph == 0 ? (mark ? 2 : 1) : ph == 1 ? 3 : 0;
  rd_line += (ok && ph == 2) ? 1 : 0;
  return ret;
}
int CPPPreprocessor::skip_whitespace(int c) { return c; }
int CPPPreprocessor::skip_comment(int c) { return c; }

// The callers pass a freshly constructed (empty, SSO) string: the word is written into its local buffer.
static inline void put_sso(std::string &s, const char *w, unsigned n) {
  if (s._M_dataplus._M_p != s._M_local_buf || s._M_string_length != 0) { protocol_error = 1; return; }
  for (int j = 0; j < 9; j++) s._M_local_buf[j] = w[j];
  s._M_string_length = n;
}

int CPPPreprocessor::get_preprocessor_command(int c, std::string &command) {
  if (rd_phase != 3 || rd_line >= NL) { protocol_error = 1; return EOF; }
  int k = kind[rd_line];
  put_sso(command, WORD[k], WLEN[k]);
  cur_line = rd_line;
  rd_phase = 4;
  return ' ';
}

int CPPPreprocessor::get_preprocessor_args(int c, std::string &args) {
  if (rd_phase != 4 || rd_line >= NL) { protocol_error = 1; return EOF; }
  int k = kind[rd_line];
  char w[9] = {ARG[k], 0, 0, 0, 0, 0, 0, 0, 0};
  put_sso(args, w, ARG[k] ? 1 : 0);
  rd_line++; rd_phase = 0; _start_of_line = true;
  return '\n';
}

// ---- libstdc++ / bookkeeping below the conditional logic ---------------------------------------------------------------
// operator==(const std::string &, const char *): same value as the library code (compare() == 0), without the
// early-exit loops of strlen/memcmp on a symbolic length
bool c09_streq(const std::string *a, const char *b) asm("_ZSteqIcSt11char_traitsIcESaIcEEbRKNSt7__cxx1112basic_stringIT_T0_T1_EEPKS5_");
bool c09_streq(const std::string *a, const char *b) {
  const char *p = a->_M_dataplus._M_p;
  unsigned long len = a->_M_string_length;
  unsigned n = 0;
  unsigned long w = 0;                      // the first (at most 8) characters of the literal as one word
  while (b[n]) { if (n < 8) w |= (unsigned long)(unsigned char)b[n] << (8 * n); n++; }
  if (p == a->_M_local_buf && n <= 8) {     // SSO: all 16 bytes of the (8-aligned) buffer are readable
    unsigned long v;
    __builtin_memcpy(&v, p, 8);
    unsigned long m = n == 8 ? ~0ul : ((1ul << (8 * n)) - 1ul);
    return (len == n) & ((v & m) == w);
  }
  bool r = len == n;
  if (r) for (unsigned j = 0; j < n; j++) r &= (p[j] == b[j]);
  return r;
}
#ifndef VERIF_NATIVE
// loc.file = get_file() and the YYLTYPE / CPPFile special members: nothing below reads loc.  (The native replay keeps the
// real ones: g++ calls the C1/D1 variants anyway, and a by-value return must be a real object there.)
void c09_yyl_ctor(YYLTYPE *) asm("_ZN10cppyyltypeC2Ev");
void c09_yyl_ctor(YYLTYPE *) {}
void c09_yyl_dtor(YYLTYPE *) asm("_ZN10cppyyltypeD2Ev");
void c09_yyl_dtor(YYLTYPE *) {}
void c09_file_dtor(CPPFile *) asm("_ZN7CPPFileD2Ev");
void c09_file_dtor(CPPFile *) {}
CPPFile *c09_file_assign(CPPFile *a, CPPFile *b) asm("_ZN7CPPFileaSEOS_");
CPPFile *c09_file_assign(CPPFile *a, CPPFile *b) { return a; }
void c09_get_file(CPPFile *ret, const CPPPreprocessor *self) asm("_ZNK15CPPPreprocessor8get_fileEv");
void c09_get_file(CPPFile *ret, const CPPPreprocessor *self) {}
#endif

// ---- cut points below the conditional logic -------------------------------------------------------------------------
void CPPPreprocessor::handle_define_directive(const std::string &args, const YYLTYPE &loc) {
  if (cur_line >= 0 && cur_line < NL) defd |= 1u << cur_line; else protocol_error = 1;
}
void CPPPreprocessor::handle_error_directive(const std::string &args, const YYLTYPE &loc) {
  if (cur_line >= 0 && cur_line < NL) errd |= 1u << cur_line; else protocol_error = 1;
}
// the contract of the three condition handlers, deferred form (see (b) above; checked on the real code by MODE 1)
static inline void cond_result(bool truth) {
  if (!truth) {
    if (pending) protocol_error = 1;
    pending = 1;
  }
}
void CPPPreprocessor::handle_if_directive(const std::string &args, const YYLTYPE &loc) {
  cond_result(args.size() == 1 && args[0] == '1');
}
void CPPPreprocessor::handle_ifdef_directive(const std::string &args, const YYLTYPE &loc) {
  cond_result(args.size() == 1 && args[0] == 'D');
}
void CPPPreprocessor::handle_ifndef_directive(const std::string &args, const YYLTYPE &loc) {
  cond_result(!(args.size() == 1 && args[0] == 'D'));
}

extern "C" void harness_c09_sym() {
  CPPPreprocessor *pp = new CPPPreprocessor;

  // ---- the symbolic script ------------------------------------------------------------------------------------------
  for (int i = 0; i < NL; i++) {
    unsigned char k = nondet_uchar();
    ASSUME(k < K_COUNT);
    kind[i] = k;
  }

  // ---- reference interpreter of C11 6.10.1 (and the well-nestedness precondition) ------------------------------------
  // level d (1..DMAX) describes the innermost open conditional at nesting depth d
  bool act[DMAX + 1];        // the group being read at this depth is kept (act[0]: top level, always kept)
  bool taken[DMAX + 1];      // some group of this conditional has been kept already
  bool has_else[DMAX + 1];   // #else seen: no further #elif*/#else allowed
  for (int d = 0; d <= DMAX; d++) { act[d] = (d == 0); taken[d] = false; has_else[d] = false; }
  int depth = 0;
  unsigned want_surv = 0, want_def = 0, want_err = 0;
  unsigned A = 0;            // bit i: line i is met in a kept group (for #elif*/#else/#endif: the group they end was kept)
  unsigned B = 0;            // bit i: line i-1 is an #if*/#elif* of an active conditional that has kept no group yet
  for (int i = 0; i < NL; i++) {
    int k = kind[i];
    ASSUME(depth >= 0 && depth <= DMAX);
    if (act[depth]) A |= 1u << i;
    if (is_open(k)) {
      ASSUME(depth < DMAX);
      bool a = act[depth] && cond_true(k);
      if (act[depth] && !a) B |= 1u << (i + 1);
      depth++;
      act[depth] = a; taken[depth] = a; has_else[depth] = false;
    } else if (is_elif(k) || k == K_ELSE) {
      ASSUME(depth > 0);
      ASSUME(!has_else[depth]);
      bool c = (k == K_ELSE) || cond_true(k);
      bool a = act[depth - 1] && !taken[depth] && c;     // conditions after a kept group are not even evaluated
      if (act[depth - 1] && !taken[depth] && !c) B |= 1u << (i + 1);
      act[depth] = a;
      if (a) taken[depth] = true;
      if (k == K_ELSE) has_else[depth] = true;
    } else if (k == K_ENDIF) {
      ASSUME(depth > 0);
      depth--;
    } else if (act[depth]) {
      if (k == K_MARKER) want_surv |= 1u << i;
      else if (k == K_DEFINE) want_def |= 1u << i;
      else want_err |= 1u << i;
    }
  }
  ASSUME(depth == 0);
  A |= 1u << NL;             // the end of the file is met at top level

  protocol_error = 0; cur_line = 0; pending = 0; surv = defd = errd = 0;
#if STEP
  // ---- ONE step of the driver from an arbitrary state that the reference interpreter allows ---------------------------
  // The implementation keeps no stack: its whole state is (read position, "a skip to the next #elif*/#else/#endif is
  // due").  Invariant: in normal state at line p the reference meets line p in a kept group (bit p of A); with a skip
  // due at line p, bit p of B.  One step = what internal_get_next_token does with one character at the start of a line,
  // or one deferred skip_false_if_block(true).  Asserted: the step ends at the start of a later line q in a state that
  // satisfies the invariant again, and the effects of the lines p..q-1 are exactly the reference's.  By induction over
  // the steps (line 0 is met at top level) the whole file is handled like the reference handles it.
  int p = START >= 0 ? START : nondet_int();
  ASSUME(p >= 0 && p <= NL);
  bool due = PEND >= 0 ? (PEND != 0) : nondet_bool();
  ASSUME((((due ? B : A) >> p) & 1u) != 0);
  rd_line = p; rd_phase = 0;
  pp->_start_of_line = true;
  bool done = false;
  if (due) {
    pp->skip_false_if_block(true);
  } else {
    int c = pp->get();
    if (c == EOF) {
      done = true;
    } else if (c == '#' && pp->_start_of_line) {
      pp->process_directive(c);
    } else if (c == 'M') {
      if (rd_line < NL) surv |= 1u << rd_line; else protocol_error = 1;
      c = pp->get();                     // the newline
      if (c != '\n') protocol_error = 1;
    } else {
      protocol_error = 1;
    }
  }
  int q = rd_line;
  ASSERT(protocol_error == 0, "C09 directives are read as command word then arguments, on their own lines");
  ASSERT(done ? (p == NL && q == NL) : (q > p && q <= NL && rd_phase == 0 && pp->_start_of_line),
         "C09 a step ends at the start of a later line (or at the end of the file)");
  unsigned below_q = (q >= 0 && q <= NL) ? ((1u << q) - 1u) : 0u;
  unsigned window = below_q & ~((1u << p) - 1u);                   // lines p .. q-1
  ASSERT((((pending ? B : A) >> (q & 31)) & 1u) != 0,
         "C09 after the step the read position is one where the reference interpreter is in the same state (kept group / looking for the next #elif, #else or #endif)");
  ASSERT(surv == (want_surv & window), "C09 the text lines that reach the parser are exactly those in the groups a conforming preprocessor keeps");
  ASSERT(defd == (want_def & window), "C09 #define is acted upon exactly in kept groups");
  ASSERT(errd == (want_err & window), "C09 #error is acted upon exactly in kept groups");
#ifdef COVER
  ASSERT(!(COVER), "C09 cover experiment");
#endif
#else
  // ---- whole run: the directive dispatch of internal_get_next_token, with the deferred skips --------------------------
  rd_line = 0; rd_phase = 0;
  pp->_start_of_line = true;
  bool done = false;
  for (int step = 0; step < NL + 1; step++) {
    if (done) continue;
    if (pending) {
      pending = 0;
      pp->skip_false_if_block(true);
    } else {
      int c = pp->get();
      if (c == EOF) {
        done = true;
      } else if (c == '#' && pp->_start_of_line) {
        pp->process_directive(c);
      } else if (c == 'M') {
        if (rd_line < NL) surv |= 1u << rd_line; else protocol_error = 1;
        c = pp->get();                     // the newline
        if (c != '\n') protocol_error = 1;
      } else {
        protocol_error = 1;
      }
    }
  }
  ASSERT(done && pending == 0 && rd_line == NL, "C09 the whole file is consumed, nothing beyond it");
  ASSERT(protocol_error == 0, "C09 directives are read as command word then arguments, on their own lines");
  ASSERT(surv == want_surv, "C09 the text lines that reach the parser are exactly those in the groups a conforming preprocessor keeps");
  ASSERT(defd == want_def, "C09 #define is acted upon exactly in kept groups");
  ASSERT(errd == want_err, "C09 #error is acted upon exactly in kept groups");
#endif
  WITNESS();
}

#else  // MODE 1 ======================================================================================================
static int skip_calls, skip_arg, reads;
void CPPPreprocessor::skip_false_if_block(bool consider_elifs) { skip_calls++; skip_arg = consider_elifs ? 1 : 0; }
int CPPPreprocessor::get() { reads++; return EOF; }
int CPPPreprocessor::skip_whitespace(int c) { reads++; return c; }
int CPPPreprocessor::skip_comment(int c) { reads++; return c; }
bool CPPPreprocessor::is_manifest_defined(const std::string &name) const {
  return name.size() == 1 && name[0] == 'D';
}
void CPPPreprocessor::expand_manifests(std::string &expr, bool expand_undefined, const CPPManifest::Ignores &ignores) const {}
static int if_truth;
static char dummy_expr[sizeof(CPPExpression)] __attribute__((aligned(16)));
bool CPPExpressionParser::parse_expr(const std::string &expr, const CPPPreprocessor &filepos) {
  if_truth = (expr.size() == 1 && expr[0] == '1');
  _expr = reinterpret_cast<CPPExpression *>(dummy_expr);       // never dereferenced: evaluate() is cut as well
  return true;
}
CPPExpression::Result CPPExpression::evaluate() const {
  Result r;
  r._type = RT_integer;
  r._u._pointer = nullptr;
  r._u._integer = if_truth;
  return r;
}

extern "C" void harness_c09_handle() {
  CPPPreprocessor *pp = new CPPPreprocessor;
  YYLTYPE *loc = new YYLTYPE;
  int which = nondet_int();
  ASSUME(which >= 0 && which <= 2);
  bool one = nondet_bool();
  char ch = which == 0 ? (one ? '1' : '0') : (one ? 'D' : 'U');
  std::string *args = new std::string(1, ch);
  bool truth;
  pp->_start_of_line = true;
  if (which == 0) { pp->handle_if_directive(*args, *loc); truth = one; }
  else if (which == 1) { pp->handle_ifdef_directive(*args, *loc); truth = one; }
  else { pp->handle_ifndef_directive(*args, *loc); truth = !one; }
  ASSERT(skip_calls == (truth ? 0 : 1), "C09 a condition handler skips (once) exactly when its condition is false");
  ASSERT(skip_calls == 0 || skip_arg == 1, "C09 a false condition skips to the next #elif*/#else/#endif of its conditional");
  ASSERT(reads == 0 && pp->_start_of_line, "C09 a condition handler reads nothing itself");
  WITNESS();
}
#endif
