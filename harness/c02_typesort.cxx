// C02 Tier A (d): the overload ORDER of the -python-native dispatch on real parameter types.
// get_type_sort (interfaceMakerPythonNative.cxx:4858) ranks a parameter type through the real TypeManager predicates;
// RemapCompareLess + std::sort (write_function_forset, :5077) try the overload with the highest rank first.  The
// generated dispatch takes the FIRST overload whose Python-side extraction accepts the argument, so the order is
// correct only if an overload that accepts an argument category merely by conversion (or as a catch-all) is tried
// AFTER every overload that category properly belongs to.
//
// The type objects are real (CPPSimpleType / CPPConstType / CPPPointerType / CPPReferenceType / CPPTypedefType /
// CPPEnumType / CPPStructType built by their real constructors), classified by the real TypeManager code.
// Replaced (cut): TypeManager::resolve_type (identity: the types are already resolved), CPPParser::parse_type (the look-up of
// std::basic_string<char> / <wchar_t> by TypeManager::get_basic_string_*_type: answers the harness' "string" class / unknown) and
// CPPType::get_local_name / CPPExtensionType::get_local_name (ostringstream prints; only compared with class names: answer "#" / the
// plain class name of the identifier).
//
// The oracle is independent of the ranks: per type the set A of Python argument categories its extraction accepts
// at run time (read off write_function_instance: bool = PyObject_IsTrue accepts everything, double/float =
// PyNumber_Check/'d'/'f' accept int and bool too, 'z' accepts None, pointers accept instances of the class and of
// derived classes ...) and the set H of categories it is the C++ target for (the correspondence of the property
// statement: int -> integer types, float -> floating types, str -> string types, instance -> class or base class,
// None -> nullptr_t; Python's bool is an int, the C++ bool parameter is a pure catch-all and is home to nothing).
// Rule: a must be tried before b if some category of H(a) is in A(b) but not in H(b), or if H(a) is a non-empty strict
// subset of H(b).  A and H are reference data of the harness (assumption of the catalogue entry).
//
// Symbolic: the CONTENT of the fundamental types (every CPPSimpleType kind and flag combination a parameter can have, in
// two independent families X and Y) and the pair of universe entries compared; the SHAPE of a type (plain, const,
// typedef, pointer, reference, class, enum) is concrete -- a symbolic CPPType pointer turns every virtual call of the
// classification into a fan-out over all linked implementations.
#include "verif.h"
#include "functionRemap.h"
#include "parameterRemap.h"
#include "interfaceMakerPythonNative.h"
#include "typeManager.h"
#include "cppSimpleType.h"
#include "cppConstType.h"
#include "cppPointerType.h"
#include "cppReferenceType.h"
#include "cppTypedefType.h"
#include "cppEnumType.h"
#include "cppStructType.h"
#include "cppIdentifier.h"
#include "cppScope.h"
#include "cppFile.h"
#include "cppParser.h"
#include "c03_native_globals.h"
#include <new>
#include <vector>
#include <algorithm>

bool RemapCompareLess(FunctionRemap *in1, FunctionRemap *in2);
int get_type_sort(CPPType *type);
#ifndef VERIF_NATIVE
bool mangle_names = true;     // defined in interrogate.cxx (a main file, never linked)
#endif

#define NOINL __attribute__((noinline))

// ---- Python argument categories ---------------------------------------------------------------------------------
enum { C_BOOL = 1, C_INT = 2, C_FLOAT = 4, C_STR = 8, C_BYTES = 16, C_NONE = 32, C_CLS = 64, C_DER = 128, C_ENUM = 256,
       C_OTHER = 512, C_ALL = 1023 };
#define INTS (C_INT | C_BOOL)
#define NUMS (C_INT | C_BOOL | C_FLOAT)
#define INST (C_CLS | C_DER)

// ---- the type universe --------------------------------------------------------------------------------------------
// Entries 0..2 wrap a CPPSimpleType whose CONTENT (_type, _flags) is symbolic: every fundamental type at once (bool, char,
// signed/unsigned char, wchar_t, char8/16/32_t, [unsigned] short/int/long/long long, float, double, long double,
// nullptr_t), plain, const-qualified and behind a typedef.  The other entries are concrete compound types.
// There are two such families X and Y (independent symbolic contents) for the two overloads of a pair.
#ifndef WITH_CREF
#define WITH_CREF 0      // 1: also "const T &" of the fundamental type (catalogue entry c02_type_rank_cref: fails, see there)
#endif
enum { E_VAL, E_CONST, E_TYPEDEF,
#if WITH_CREF
       E_CREF,
#endif
       NFAM,
       E_ENUM = NFAM, E_SENUM, E_CCHARP, E_STRING, E_CSTRREF, E_CLSP, E_CCLSREF, E_CLSVAL, E_DERP, E_INTP, NE };
struct Family {
  CPPSimpleType *simple;
  CPPType *type[NE];
  int acc[NE], home[NE];
};
static Family FX, FY;
static CPPStructType *g_string_type;

// cut points (see the head comment)
CPPType *TypeManager::resolve_type(CPPType *type, CPPScope *) { return type; }
CPPType *CPPParser::parse_type(const std::string &type) {      // "std::basic_string<char>" / "std::basic_string<wchar_t>"
  return (type.size() == 23) ? g_string_type : nullptr;
}
std::string CPPType::get_local_name(CPPScope *) const { return std::string("#"); }
std::string CPPExtensionType::get_local_name(CPPScope *) const {      // the real one prints the name through an ostringstream
  return _ident == nullptr ? std::string() : _ident->_names.back().get_name();
}

static NOINL CPPStructType *make_class(const char *name) {
  CPPIdentifier *ident = new CPPIdentifier(std::string(name));
  CPPScope *scope = new CPPScope(nullptr, CPPNameComponent(std::string(name)), V_public);
  CPPStructType *s = new CPPStructType(CPPExtensionType::T_class, ident, nullptr, scope, CPPFile());
  scope->set_struct_type(s);
  s->_incomplete = false;
  return s;
}
static NOINL CPPEnumType *make_enum(const char *name, CPPExtensionType::Type t) {
  CPPIdentifier *ident = new CPPIdentifier(std::string(name));
  CPPScope *scope = new CPPScope(nullptr, CPPNameComponent(std::string(name)), V_public);
  return new CPPEnumType(t, ident, nullptr, scope, CPPFile());
}
static NOINL void def(Family *f, int e, CPPType *type, int acc, int home) { f->type[e] = type; f->acc[e] = acc; f->home[e] = home; }

// what the generated extraction of a fundamental parameter type accepts / is the C++ target of (write_function_instance:
// is_bool -> PyObject_IsTrue; is_nullptr -> arg == Py_None; is_char -> 's#' of length 1; is_wchar -> 'U'; every other
// integer -> PyLong_Check / 'i' 'l' 'k' 'L' 'K' 'h'; is_double / is_float -> PyNumber_Check / 'd' 'f')
static NOINL void simple_kind(int type, int flags, int *acc, int *home) {
  switch (type) {
  case CPPSimpleType::T_bool: *acc = C_ALL; *home = 0; break;
  case CPPSimpleType::T_nullptr: *acc = C_NONE; *home = C_NONE; break;
  case CPPSimpleType::T_char: if (flags == 0) { *acc = C_STR; *home = C_STR; } else { *acc = INTS; *home = C_INT; } break;
  case CPPSimpleType::T_wchar_t: *acc = C_STR; *home = C_STR; break;
  case CPPSimpleType::T_float: case CPPSimpleType::T_double: *acc = NUMS; *home = C_FLOAT; break;
  default: *acc = INTS; *home = C_INT; break;        // T_int, T_char8_t, T_char16_t, T_char32_t
  }
}
static NOINL bool valid_kind(int type, int flags) {
  const int L = CPPSimpleType::F_long, LL = CPPSimpleType::F_longlong, S = CPPSimpleType::F_short, U = CPPSimpleType::F_unsigned,
            SG = CPPSimpleType::F_signed;
  switch (type) {
  case CPPSimpleType::T_int: {
    int size = flags & (L | LL | S), sign = flags & (U | SG);
    return (flags & ~(L | LL | S | U | SG)) == 0 && (size == 0 || size == L || size == LL || size == S) && sign != (U | SG);
  }
  case CPPSimpleType::T_char: return flags == 0 || flags == U || flags == SG;
  case CPPSimpleType::T_double: return flags == 0 || flags == L;
  case CPPSimpleType::T_bool: case CPPSimpleType::T_wchar_t: case CPPSimpleType::T_char8_t: case CPPSimpleType::T_char16_t:
  case CPPSimpleType::T_char32_t: case CPPSimpleType::T_float: case CPPSimpleType::T_nullptr:
    return flags == 0;
  default: return false;
  }
}

static CPPStructType *g_cls, *g_der;
static CPPType *g_conc[NE], *g_first;
static NOINL void build_concrete() {
  g_string_type = make_class("string");
  g_cls = make_class("Cls");
  g_der = make_class("Der");
  g_der->append_derivation(g_cls, V_public, false);
  CPPType *c = new CPPSimpleType(CPPSimpleType::T_char);
  CPPType *i = new CPPSimpleType(CPPSimpleType::T_int);
  g_conc[E_ENUM] = make_enum("Mode", CPPExtensionType::T_enum);
  g_conc[E_SENUM] = make_enum("Kind", CPPExtensionType::T_enum_class);
  g_conc[E_CCHARP] = new CPPPointerType(new CPPConstType(c));
  g_conc[E_STRING] = g_string_type;
  g_conc[E_CSTRREF] = new CPPReferenceType(new CPPConstType(g_string_type));
  g_conc[E_CLSP] = new CPPPointerType(g_cls);
  g_conc[E_CCLSREF] = new CPPReferenceType(new CPPConstType(g_cls));
  g_conc[E_CLSVAL] = g_cls;
  g_conc[E_DERP] = new CPPPointerType(g_der);
  g_conc[E_INTP] = new CPPPointerType(i);
  g_first = new CPPSimpleType(CPPSimpleType::T_nullptr);
}
static NOINL void build_family(Family *f, const char *tdname) {
  int type = nondet_int(), flags = nondet_int();
  ASSUME(valid_kind(type, flags));
  CPPSimpleType *x = new CPPSimpleType(CPPSimpleType::T_int);
  x->_type = (CPPSimpleType::Type)type;                 // symbolic content, concrete object
  x->_flags = flags;
  f->simple = x;
  int acc, home;
  simple_kind(type, flags, &acc, &home);
  def(f, E_VAL, x, acc, home);
  def(f, E_CONST, new CPPConstType(x), acc, home);
  def(f, E_TYPEDEF, new CPPTypedefType(x, std::string(tdname), nullptr), acc, home);
#if WITH_CREF
  def(f, E_CREF, new CPPReferenceType(new CPPConstType(x)), acc, home);     // extraction as for T (ParameterRemapReferenceToConcrete)
#endif
  def(f, E_ENUM, g_conc[E_ENUM], INTS, C_INT);                      // unscoped enum: 'i'
  def(f, E_SENUM, g_conc[E_SENUM], C_ENUM, C_ENUM);                 // Dtool_EnumValue_AsLong: objects with .value
  def(f, E_CCHARP, g_conc[E_CCHARP], C_STR | C_NONE, C_STR);        // 'z'
  def(f, E_STRING, g_conc[E_STRING], C_STR, C_STR);                 // PyUnicode_AsUTF8AndSize / 's#'
  def(f, E_CSTRREF, g_conc[E_CSTRREF], C_STR, C_STR);
  def(f, E_CLSP, g_conc[E_CLSP], INST, INST);                       // DTOOL_Call_GetPointerThisClass: Cls and subclasses
  def(f, E_CCLSREF, g_conc[E_CCLSREF], INST, INST);
  def(f, E_CLSVAL, g_conc[E_CLSVAL], INST, INST);
  def(f, E_DERP, g_conc[E_DERP], C_DER, C_DER);
  def(f, E_INTP, g_conc[E_INTP], C_BYTES, C_BYTES);                 // PyObject_GetBuffer
}
static NOINL void build_universe() {
  build_concrete();
  // TypeManager caches the parser's basic_string types in function-local statics: their first use must not happen under a
  // symbolic path condition (the cached pointer would become symbolic and every virtual call on it fans out)
  (void)get_type_sort(g_string_type);
  build_family(&FX, "TX");
  build_family(&FY, "TY");
}

// a (tried first) must come before b: some argument category belongs to a and b takes it only by conversion, or a is the
// strictly more specific home (derived class before base class)
static inline bool must_before(int ha, int hb, int ab) {
  if (ha & ab & ~hb) return true;
  if (ha != 0 && ha != hb && (ha & ~hb) == 0) return true;
  return false;
}

// ---- (d1) get_type_sort on every type of the universe, the oracle on a SYMBOLIC pair ---------------------------------
extern "C" void harness_c02_type_rank() {
  build_universe();
  int rx[NE], ry[NE];
  for (int e = 0; e < NE; e++) rx[e] = get_type_sort(FX.type[e]);      // the real classification
  for (int e = 0; e < NE; e++) ry[e] = (e < NFAM) ? get_type_sort(FY.type[e]) : rx[e];

  unsigned a = nondet_uint(), b = nondet_uint();
  ASSUME(a < NE && b < NE);
  int ha = FX.home[a], aa = FX.acc[a], hb = FY.home[b], ab = FY.acc[b], ra = rx[a], rb = ry[b];
  ASSERT(!(must_before(ha, hb, ab) && must_before(hb, ha, aa)), "C02 model: the acceptance oracle is not contradictory");
  if (must_before(ha, hb, ab))
    ASSERT(ra > rb,
           "C02 get_type_sort: an overload that accepts an argument category only by conversion is tried after the overload that category belongs to (int before double, derived before base, str before char*/None ...)");
  if (must_before(hb, ha, aa))
    ASSERT(rb > ra,
           "C02 get_type_sort: an overload that accepts an argument category only by conversion is tried after the overload that category belongs to (symmetric case)");
  bool a_bool = (a < NFAM && FX.simple->_type == CPPSimpleType::T_bool), b_bool = (b < NFAM && FY.simple->_type == CPPSimpleType::T_bool);
  if (a_bool && !b_bool)
    ASSERT(rb > ra, "C02 get_type_sort: a bool parameter (PyObject_IsTrue accepts every object) is tried after every other parameter type");
  if (a_bool && b_bool)
    ASSERT(ra == rb, "C02 get_type_sort: bool, const bool and a typedef of bool rank alike");
  ASSERT(ra > 0, "C02 get_type_sort: every type of the universe is classified");
  WITNESS();
}

// ---- (d2) the dispatch order of an overload pair: real RemapCompareLess (+ std::sort) ---------------------------------
#ifndef NPAR
#define NPAR 1           // parameters per overload; with 2 the FIRST parameter has the same type in every overload (nullptr_t: the
                         // first test of get_type_sort, which keeps the run short; the comparator only sees equal ranks there)
#endif
#ifndef PART
#define PART 3           // bit 0: pairs with a symbolic fundamental type (comparator called directly); bit 1: concrete pairs through std::sort
#endif

static NOINL FunctionRemap *raw_remap() { return (FunctionRemap *)::operator new(sizeof(FunctionRemap)); }
static NOINL ParameterRemap *raw_param() { return (ParameterRemap *)::operator new(sizeof(ParameterRemap)); }
static FunctionRemap *OV[2];

static NOINL void set_types(int a, int b) {
  OV[0]->_parameters[NPAR - 1]._remap->_orig_type = FX.type[a];
  OV[1]->_parameters[NPAR - 1]._remap->_orig_type = FY.type[b];
}

// a pair with symbolic type content: the comparator's answer is symbolic, so it is called directly (std::sort's unguarded
// insertion loop relies on the comparator repeating its answer, which symbolic execution cannot see: it runs off the array)
static NOINL void compare_case(int a, int b) {
  set_types(a, b);
  bool lt01 = RemapCompareLess(OV[0], OV[1]), lt10 = RemapCompareLess(OV[1], OV[0]);
  ASSERT(!(lt01 && lt10), "C02 RemapCompareLess on real parameter types is asymmetric");
  int ha = FX.home[a], aa = FX.acc[a], hb = FY.home[b], ab = FY.acc[b];
  if (must_before(ha, hb, ab))
    ASSERT(lt01, "C02 dispatch order: the overload an argument category belongs to sorts before an overload that merely converts it (bool last, int before double, None before char* ...)");
  if (must_before(hb, ha, aa))
    ASSERT(lt10, "C02 dispatch order: the overload an argument category belongs to sorts before an overload that merely converts it (second overload)");
}

// an overload set of NSET concrete parameter types through std::sort, as write_function_forset does; two input orders
#define NSET 10
static FunctionRemap *SET[NSET];
static int set_acc[NSET], set_home[NSET];
static NOINL void sort_case(int reversed) {
  std::vector<FunctionRemap *> remaps;
  remaps.reserve(NSET);
  for (int k = 0; k < NSET; k++) remaps.push_back(SET[reversed ? NSET - 1 - k : k]);
  std::sort(remaps.begin(), remaps.end(), RemapCompareLess);
  int pos[NSET];
  for (int e = 0; e < NSET; e++) {
    pos[e] = -1;
    for (int k = 0; k < NSET; k++) if (remaps[k] == SET[e]) pos[e] = k;
    ASSERT(pos[e] >= 0, "C02 std::sort with RemapCompareLess keeps every overload of the set");
  }
  for (int x = 0; x < NSET; x++)
    for (int y = 0; y < NSET; y++)
      if (must_before(set_home[x], set_home[y], set_acc[y]))
        ASSERT(pos[x] < pos[y], "C02 dispatch order: the overload an argument category belongs to is tried before an overload that merely converts it (bool last, int before double, derived before base, str before char*/None)");
}

static NOINL FunctionRemap *make_overload(CPPType *type) {
  FunctionRemap *r = raw_remap();
  new (&r->_parameters) FunctionRemap::Parameters();
  // the comparator's tie-breaker: every overload of a set has its own signature
  static char sig_serial = 'a';
  new (&r->_function_signature) std::string(1, sig_serial++);
  r->_const_method = false;               // const-ness: c02_remap_compare
  r->_parameters.reserve(NPAR);
  for (int x = 0; x < NPAR; x++) {
    ParameterRemap *pr = raw_param();
    pr->_orig_type = (x == NPAR - 1) ? type : g_first;
    r->_parameters.emplace_back();
    r->_parameters[x]._remap = pr;
  }
  return r;
}

extern "C" void harness_c02_dispatch_order() {
  build_universe();
#if PART & 1
  OV[0] = make_overload(nullptr);
  OV[1] = make_overload(nullptr);
  // the plain X type against every Y entry (Y-family against concrete types is the same by symmetry of X and Y), and the
  // wrapped shapes against each other (every shape x shape pair is ranked in c02_type_rank; this harness adds the comparator)
  for (int b = 0; b < NE; b++)
    compare_case(E_VAL, b);
  compare_case(E_CONST, E_TYPEDEF);
  compare_case(E_TYPEDEF, E_CONST);
#endif
#if PART & 2
  // bool, int, double (fresh concrete objects) and 7 compound types; listed roughly in ascending rank (worst case for the
  // insertion sort), then reversed
  static const int PICK[NSET - 3] = {E_INTP, E_SENUM, E_CCHARP, E_CSTRREF, E_CLSP, E_CCLSREF, E_DERP};
  int n = 0;
  SET[n] = make_overload(new CPPSimpleType(CPPSimpleType::T_bool)); simple_kind(CPPSimpleType::T_bool, 0, &set_acc[n], &set_home[n]); n++;
  for (int k = 0; k < NSET - 3; k++, n++) {
    SET[n] = make_overload(g_conc[PICK[k]]); set_acc[n] = FX.acc[PICK[k]]; set_home[n] = FX.home[PICK[k]];
    if (k == 0) {
      n++;
      SET[n] = make_overload(new CPPSimpleType(CPPSimpleType::T_double)); simple_kind(CPPSimpleType::T_double, 0, &set_acc[n], &set_home[n]);
      n++;
      SET[n] = make_overload(new CPPSimpleType(CPPSimpleType::T_int)); simple_kind(CPPSimpleType::T_int, 0, &set_acc[n], &set_home[n]);
    }
  }
  sort_case(0);
  sort_case(1);
#endif
  WITNESS();
}
