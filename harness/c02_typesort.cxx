// C02 Tier A (d): the overload ORDER of the -python-native dispatch on real parameter types.
// get_type_sort (interfaceMakerPythonNative.cxx:4858) ranks a parameter type through the real TypeManager predicates;
// RemapCompareLess + std::sort (write_function_forset, :5077) try the overload with the highest rank first.  The
// generated dispatch takes the FIRST overload whose Python-side extraction accepts the argument, so the order is
// correct only if an overload that accepts an argument category merely by conversion (or as a catch-all) is tried
// AFTER every overload that category properly belongs to.
//
// The type objects are real (CPPSimpleType / CPPConstType / CPPPointerType / CPPReferenceType / CPPTypedefType /
// CPPEnumType / CPPStructType built by their real constructors), classified by the real TypeManager code.
// Replaced (cut): TypeManager::resolve_type (identity: the types are already resolved), CPPParser::parse_type (the look-up of
// std::basic_string<char> / <wchar_t> by TypeManager::get_basic_string_*_type: answers the harness' "string" class / unknown) and
// CPPType::get_local_name / CPPExtensionType::get_local_name (ostringstream prints; only compared with class names: answer "#" / the
// plain class name of the identifier).
//
// The oracle is independent of the ranks: per type the set A of Python argument categories its extraction accepts
// at run time (read off write_function_instance: bool = PyObject_IsTrue accepts everything, double/float =
// PyNumber_Check/'d'/'f' accept int and bool too, 'z' accepts None, pointers accept instances of the class and of
// derived classes ...) and the set H of categories it is the C++ target for (the correspondence of the property
// statement: int -> integer types, float -> floating types, str -> string types, instance -> class or base class,
// None -> nullptr_t; Python's bool is an int, the C++ bool parameter is a pure catch-all and is home to nothing).
#include "verif.h"
#include "functionRemap.h"
#include "parameterRemap.h"
#include "interfaceMakerPythonNative.h"
#include "typeManager.h"
#include "cppSimpleType.h"
#include "cppConstType.h"
#include "cppPointerType.h"
#include "cppReferenceType.h"
#include "cppTypedefType.h"
#include "cppEnumType.h"
#include "cppStructType.h"
#include "cppIdentifier.h"
#include "cppScope.h"
#include "cppFile.h"
#include "cppParser.h"
#include "c03_native_globals.h"
#include <new>
#include <vector>
#include <algorithm>

bool RemapCompareLess(FunctionRemap *in1, FunctionRemap *in2);
int get_type_sort(CPPType *type);
#ifndef VERIF_NATIVE
bool mangle_names = true;     // defined in interrogate.cxx (a main file, never linked)
#endif

#define NOINL __attribute__((noinline))

// ---- Python argument categories ---------------------------------------------------------------------------------
enum { C_BOOL = 1, C_INT = 2, C_FLOAT = 4, C_STR = 8, C_BYTES = 16, C_NONE = 32, C_CLS = 64, C_DER = 128, C_ENUM = 256,
       C_OTHER = 512, C_ALL = 1023 };

// ---- the type universe --------------------------------------------------------------------------------------------
enum { T_BOOL, T_CBOOL, T_TDBOOL, T_INT, T_CINT, T_UINT, T_LONG, T_SHORT, T_LLONG, T_ULLONG, T_ENUM, T_SENUM, T_DOUBLE,
       T_CDOUBLE, T_FLOAT, T_CHAR, T_CCHARP, T_STRING, T_CSTRREF, T_CLSP, T_CCLSREF, T_CLSVAL, T_DERP, T_NULLPTR, T_INTP, NT };
static CPPType *U[NT];
static int ACC[NT], HOME[NT];
static CPPStructType *g_string_type;

// cut points (see the head comment)
CPPType *TypeManager::resolve_type(CPPType *type, CPPScope *) { return type; }
CPPType *CPPParser::parse_type(const std::string &type) {      // "std::basic_string<char>" / "std::basic_string<wchar_t>"
  return (type.size() == 23) ? g_string_type : nullptr;
}
std::string CPPType::get_local_name(CPPScope *) const { return std::string("#"); }
std::string CPPExtensionType::get_local_name(CPPScope *) const {      // the real one prints the name through an ostringstream
  return _ident == nullptr ? std::string() : _ident->_names.back().get_name();
}

static NOINL CPPStructType *make_class(const char *name) {
  CPPIdentifier *ident = new CPPIdentifier(std::string(name));
  CPPScope *scope = new CPPScope(nullptr, CPPNameComponent(std::string(name)), V_public);
  CPPStructType *s = new CPPStructType(CPPExtensionType::T_class, ident, nullptr, scope, CPPFile());
  scope->set_struct_type(s);
  s->_incomplete = false;
  return s;
}
static NOINL CPPEnumType *make_enum(const char *name, CPPExtensionType::Type t) {
  CPPIdentifier *ident = new CPPIdentifier(std::string(name));
  CPPScope *scope = new CPPScope(nullptr, CPPNameComponent(std::string(name)), V_public);
  return new CPPEnumType(t, ident, nullptr, scope, CPPFile());
}
static NOINL void def(int t, CPPType *type, int acc, int home) { U[t] = type; ACC[t] = acc; HOME[t] = home; }

static NOINL void build_universe() {
  CPPType *b = new CPPSimpleType(CPPSimpleType::T_bool);
  CPPType *i = new CPPSimpleType(CPPSimpleType::T_int);
  CPPType *d = new CPPSimpleType(CPPSimpleType::T_double);
  CPPType *c = new CPPSimpleType(CPPSimpleType::T_char);
  g_string_type = make_class("string");
  CPPStructType *cls = make_class("Cls");
  CPPStructType *der = make_class("Der");
  der->append_derivation(cls, V_public, false);
  const int INTS = C_INT | C_BOOL, NUMS = C_INT | C_BOOL | C_FLOAT, INST = C_CLS | C_DER;

  def(T_BOOL, b, C_ALL, 0);                                                   // PyObject_IsTrue: everything
  def(T_CBOOL, new CPPConstType(b), C_ALL, 0);
  def(T_TDBOOL, new CPPTypedefType(b, std::string("Flag"), nullptr), C_ALL, 0);
  def(T_INT, i, INTS, C_INT);                                                 // PyLong_Check / 'i'
  def(T_CINT, new CPPConstType(i), INTS, C_INT);
  def(T_UINT, new CPPSimpleType(CPPSimpleType::T_int, CPPSimpleType::F_unsigned), INTS, C_INT);
  def(T_LONG, new CPPSimpleType(CPPSimpleType::T_int, CPPSimpleType::F_long), INTS, C_INT);
  def(T_SHORT, new CPPSimpleType(CPPSimpleType::T_int, CPPSimpleType::F_short), INTS, C_INT);
  def(T_LLONG, new CPPSimpleType(CPPSimpleType::T_int, CPPSimpleType::F_longlong), INTS, C_INT);
  def(T_ULLONG, new CPPSimpleType(CPPSimpleType::T_int, CPPSimpleType::F_longlong | CPPSimpleType::F_unsigned), INTS, C_INT);
  def(T_ENUM, make_enum("Mode", CPPExtensionType::T_enum), INTS, C_INT);      // unscoped enum: 'i'
  def(T_SENUM, make_enum("Kind", CPPExtensionType::T_enum_class), C_ENUM, C_ENUM);   // Dtool_EnumValue_AsLong: objects with .value
  def(T_DOUBLE, d, NUMS, C_FLOAT);                                            // PyNumber_Check / 'd'
  def(T_CDOUBLE, new CPPConstType(d), NUMS, C_FLOAT);
  def(T_FLOAT, new CPPSimpleType(CPPSimpleType::T_float), NUMS, C_FLOAT);
  def(T_CHAR, c, C_STR, C_STR);                                               // 's#' of length 1
  def(T_CCHARP, new CPPPointerType(new CPPConstType(c)), C_STR | C_NONE, C_STR);     // 'z'
  def(T_STRING, g_string_type, C_STR, C_STR);                                 // PyUnicode_AsUTF8AndSize / 's#'
  def(T_CSTRREF, new CPPReferenceType(new CPPConstType(g_string_type)), C_STR, C_STR);
  def(T_CLSP, new CPPPointerType(cls), INST, INST);                           // DTOOL_Call_GetPointerThisClass: Cls and subclasses
  def(T_CCLSREF, new CPPReferenceType(new CPPConstType(cls)), INST, INST);
  def(T_CLSVAL, cls, INST, INST);
  def(T_DERP, new CPPPointerType(der), C_DER, C_DER);
  def(T_NULLPTR, new CPPSimpleType(CPPSimpleType::T_nullptr), C_NONE, C_NONE);     // arg == Py_None
  def(T_INTP, new CPPPointerType(i), C_BYTES, C_BYTES);                       // PyObject_GetBuffer
}

// a (tried first) must come before b: some argument category belongs to a and b takes it only by conversion, or a is the
// strictly more specific home (derived class before base class)
static inline bool must_before(int ha, int aa, int hb, int ab) {
  (void)aa;
  if (ha & ab & ~hb) return true;
  if (ha != 0 && ha != hb && (ha & ~hb) == 0) return true;
  return false;
}

// ---- (d1) get_type_sort on every type of the universe, the oracle on a SYMBOLIC pair ---------------------------------
extern "C" void harness_c02_type_rank() {
  build_universe();
  int rank[NT];
  for (int t = 0; t < NT; t++) rank[t] = get_type_sort(U[t]);      // the real classification (concrete type objects)

  unsigned a = nondet_uint(), b = nondet_uint();
  ASSUME(a < NT && b < NT);
  int ha = HOME[a], aa = ACC[a], hb = HOME[b], ab = ACC[b];
  ASSERT(!(must_before(ha, aa, hb, ab) && must_before(hb, ab, ha, aa)), "C02 model: the acceptance oracle is not contradictory");
  if (must_before(ha, aa, hb, ab))
    ASSERT(rank[a] > rank[b],
           "C02 get_type_sort: an overload that accepts an argument category only by conversion is tried after the overload that category belongs to (int before double, derived before base, str before char*/None ...)");
  bool a_bool = (a == T_BOOL || a == T_CBOOL || a == T_TDBOOL), b_bool = (b == T_BOOL || b == T_CBOOL || b == T_TDBOOL);
  if (a_bool && !b_bool)
    ASSERT(rank[b] > rank[a], "C02 get_type_sort: a bool parameter (PyObject_IsTrue accepts every object) is tried after every other parameter type");
  if (a_bool && b_bool)
    ASSERT(rank[a] == rank[b], "C02 get_type_sort: bool, const bool and a typedef of bool rank alike");
  ASSERT(rank[a] > 0, "C02 get_type_sort: every type of the universe is classified");
  WITNESS();
}

// ---- (d2) the dispatch order of an overload set: real RemapCompareLess + std::sort ---------------------------------
#ifndef NOV
#define NOV 2            // overloads in the set
#endif
#ifndef NPAR
#define NPAR 1           // parameters per overload; with 2 the FIRST parameter has the same type in every overload
#endif
#ifndef A_FROM
#define A_FROM 0
#endif
#ifndef A_TO
#define A_TO NT
#endif
#ifndef CORE_ONLY
#define CORE_ONLY 0
#endif
static const int CORE[] = {T_BOOL, T_INT, T_LLONG, T_DOUBLE, T_FLOAT, T_CCHARP, T_CSTRREF, T_CLSP, T_DERP, T_SENUM};
#define NCORE ((int)(sizeof(CORE) / sizeof(CORE[0])))

static NOINL FunctionRemap *raw_remap() { return (FunctionRemap *)::operator new(sizeof(FunctionRemap)); }
static NOINL ParameterRemap *raw_param() { return (ParameterRemap *)::operator new(sizeof(ParameterRemap)); }
static FunctionRemap *OV[3];
static int ov_type[3];

static NOINL void set_type(int o, int t) {
  ov_type[o] = t;
  OV[o]->_parameters[NPAR - 1]._remap->_orig_type = U[t];
}

static NOINL void dispatch_case() {
  std::vector<FunctionRemap *> remaps;
  remaps.reserve(NOV);
  for (int o = 0; o < NOV; o++) remaps.push_back(OV[o]);
  std::sort(remaps.begin(), remaps.end(), RemapCompareLess);      // as write_function_forset does
  int pos[3];
  for (int o = 0; o < NOV; o++) {
    pos[o] = -1;
    for (int k = 0; k < NOV; k++) if (remaps[k] == OV[o]) pos[o] = k;
    ASSERT(pos[o] >= 0, "C02 std::sort with RemapCompareLess keeps every overload of the set");
  }
  for (int x = 0; x < NOV; x++)
    for (int y = 0; y < NOV; y++) {
      if (x == y || OV[x]->_const_method != OV[y]->_const_method) continue;
      int tx = ov_type[x], ty = ov_type[y];
      if (must_before(HOME[tx], ACC[tx], HOME[ty], ACC[ty]))
        ASSERT(pos[x] < pos[y],
               "C02 dispatch order: the overload an argument category belongs to is tried before an overload that merely converts it (bool last, int before double, derived before base)");
    }
}

extern "C" void harness_c02_dispatch_order() {
  build_universe();
  bool all_const = nondet_bool();
  for (int o = 0; o < NOV; o++) {
    FunctionRemap *r = raw_remap();
    OV[o] = r;
    new (&r->_parameters) FunctionRemap::Parameters();
    r->_const_method = (NOV >= 3 && o == 2) ? nondet_bool() : all_const;
    r->_parameters.reserve(NPAR);
    for (int x = 0; x < NPAR; x++) {
      ParameterRemap *pr = raw_param();
      pr->_orig_type = U[T_INT];
      r->_parameters.emplace_back();
      r->_parameters[x]._remap = pr;
    }
  }
#if NOV == 2
  for (int a = A_FROM; a < A_TO; a++)
    for (int b = 0; b < NT; b++) {          // ordered pairs: both input orders of every pair reach std::sort
      set_type(0, a); set_type(1, b);
      dispatch_case();
    }
#else
  for (int a = A_FROM; a < A_TO && a < NCORE; a++)
    for (int b = 0; b < NCORE; b++)
      for (int c = 0; c < NCORE; c++) {
        set_type(0, CORE[a]); set_type(1, CORE[b]); set_type(2, CORE[c]);
        dispatch_case();
      }
#endif
  WITNESS();
}
