// C04: which files count as "named on the command line / found in the working directory".  Every export gate of
// interrogateBuilder.cxx keys on CPPFile::_source == S_local; the class of an included file is decided by
// CPPPreprocessor::find_include.  Real find_include + DSearchPath + Filename path arithmetic over a table-driven file system
// (Filename::exists is the cut point, as in c17_find_include.cxx); here the INCLUDER is a file with a directory component
// whose own source class ranges over {S_local (named on the command line as pkg/f.h), S_alternate, S_system}.
#include "verif.h"
#include "cppPreprocessor.h"
#include "cppFile.h"
#include "dSearchPath.h"
#include "filename.h"
#include <string.h>

#define NDIRS 3
// KINDS: bit i set = directory i was given with -S (system), clear = -I
#ifndef KINDS
#define KINDS 5
#endif
// INCSRC: source class of the including file (0 = S_local, 1 = S_alternate, 2 = S_system); one catalogue entry per value
// and a concrete loop would both do - a symbolic value would merge into the result and make the later path strings symbolic
#ifndef INCSRC
#define INCSRC 0
#endif

// the candidate files: 0 = cwd, 1 = the including file's directory, 2.. = search directories in command-line order
#define NCAND (2 + NDIRS)
static const char CAND[5][8] = {"x.h", "pkg/x.h", "d1/x.h", "d2/x.h", "d3/x.h"};
static const unsigned CLEN[5] = {3, 7, 6, 6, 6};
static const char DIRS[3][4] = {"d1", "d2", "d3"};
static bool fs_exists[NCAND];
static unsigned sym_bits;     // bit i = existence of candidate i wherever it is not fixed by the configuration
static int fs_unexpected;

// cut point: the only file-system query find_include makes
bool Filename::exists() const {
  for (int i = 0; i < NCAND; i++) {
    if (_filename.size() == CLEN[i] && memcmp(_filename.data(), CAND[i], _filename.size()) == 0) {
      return fs_exists[i];
    }
  }
  fs_unexpected++;
  return false;
}

// One configuration: include form and the position (in the applicable search list) of the first candidate that exists
// are concrete; the existence of every other candidate is symbolic (see c17_find_include.cxx for why).
static void __attribute__((noinline)) run_config(CPPPreprocessor *pp, int kinds, bool angle, int firstpos) {
  int list[NCAND]; int nlist = 0;
  if (!angle) { for (int i = 0; i < NCAND; i++) list[nlist++] = i; }
  else { for (int i = 0; i < NDIRS; i++) if (kinds & (1 << i)) list[nlist++] = 2 + i; }
  if (firstpos >= nlist) return;
  for (int i = 0; i < NCAND; i++) {
    int pos = -1;
    for (int j = 0; j < nlist; j++) if (list[j] == i) pos = j;
    if (pos >= 0 && pos < firstpos) fs_exists[i] = false;
    else if (pos >= 0 && pos == firstpos) fs_exists[i] = true;
    else fs_exists[i] = (sym_bits >> i) & 1;
  }
  fs_unexpected = 0;
  Filename *fn = new Filename("x.h");
  CPPFile::Source source = CPPFile::S_none;
  bool found = pp->find_include(*fn, angle, source);

  int want = list[firstpos];
  ASSERT(fs_unexpected == 0, "C04 include lookup only probes the candidate locations");
  ASSERT(found, "C04 an existing candidate of the applicable search list is found");
  if (found) {
    bool in_cwd = fn->_filename.size() == CLEN[0] && memcmp(fn->_filename.data(), CAND[0], CLEN[0]) == 0;
    ASSERT(in_cwd == (want == 0), "C04 the include resolves to the working directory only when that is the first hit");
    // the property: S_local only for files named on the command line or found in the working directory - whatever the
    // class of the includer
    ASSERT((source == CPPFile::S_local) == in_cwd,
           "C04 an included file found next to its includer, via -I or via -S is never classified as the user's own (S_local)");
    ASSERT(source == CPPFile::S_local || source == CPPFile::S_alternate || source == CPPFile::S_system,
           "C04 a found include gets a definite source class");
  }
}

extern "C" void harness_c04_include_source() {
  const int kinds = KINDS;
  sym_bits = nondet_uint();
  CPPPreprocessor *pp = new CPPPreprocessor;
  // as interrogate.cxx / parse_file.cxx set the paths up from the command line
  for (int i = 0; i < NDIRS; i++) {
    Filename dir(DIRS[i]);
    if (kinds & (1 << i)) {           // -S dir
      pp->_angle_include_path.append_directory(dir);
      pp->_quote_include_path.append_directory(dir);
      pp->_quote_include_kind.push_back(CPPFile::S_system);
    } else {                          // -I dir
      pp->_quote_include_path.append_directory(dir);
      pp->_quote_include_kind.push_back(CPPFile::S_alternate);
    }
  }
  // the including file is pkg/f.h: named on the command line (S_local), or itself reached through an include
  CPPPreprocessor::InputFile *in = new CPPPreprocessor::InputFile;
  in->_file = CPPFile(Filename("pkg/f.h"), Filename("pkg/f.h"), (CPPFile::Source)INCSRC);
  pp->_infile = in;

  for (int angle = 0; angle < 2; angle++)
    for (int firstpos = 0; firstpos < NCAND; firstpos++)
      run_config(pp, kinds, angle != 0, firstpos);
  WITNESS();
}
