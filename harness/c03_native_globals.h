// Native replay only: the globals defined in interrogate.cxx (a main() file, which the replay build does not
// link unless it is listed in tus).  Under CBMC undefined globals are zero-initialised by ll2c, so nothing here.
#ifndef C03_NATIVE_GLOBALS_H
#define C03_NATIVE_GLOBALS_H
#ifdef VERIF_NATIVE
#include "cppParser.h"
#include "filename.h"
#include "cppVisibility.h"
#include <string>
CPPParser parser;
Filename output_code_filename, output_include_filename, output_data_filename, output_text_filename, source_file_directory;
std::string output_data_basename;
bool output_module_specific = false, output_function_pointers = false, output_function_names = false;
bool convert_strings = false, manage_reference_counts = false, watch_asserts = false, true_wrapper_names = false;
bool build_c_wrappers = false, build_python_wrappers = false, build_python_obj_wrappers = false, build_python_native = false;
bool track_interpreter = false, save_unique_names = false, no_database = false, generate_spam = false;
bool left_inheritance_requires_upcast = true, mangle_names = true;
CPPVisibility min_vis = V_published;
std::string library_name, module_name;
#endif
#endif
