// C20 (d): by-name lookups (lookup() + the six freshen_* functions): a stored name returns an entity bearing that
// name (the entity itself when the name is unique), an unknown name returns 0, and a lookup made after the caches
// were invalidated (STALE_ENTRY: the cache still lists a name nobody bears any more) reflects the current content.
#include "verif.h"
#include "interrogateDatabase.h"
#include <string>

#ifndef WHICH
#define WHICH 0
#endif
#ifndef STALE_ENTRY
#define STALE_ENTRY 0
#endif
// one-character names over {a,b,c}; the queried name over {a,b,c,d} or empty

#if WHICH == 0
#define MAP _type_map
#define FIELD _name
#define LOOKUP lookup_type_by_name
#define BIT 0x001
#elif WHICH == 1
#define MAP _type_map
#define FIELD _scoped_name
#define LOOKUP lookup_type_by_scoped_name
#define BIT 0x002
#elif WHICH == 2
#define MAP _type_map
#define FIELD _true_name
#define LOOKUP lookup_type_by_true_name
#define BIT 0x004
#elif WHICH == 3
#define MAP _manifest_map
#define FIELD _name
#define LOOKUP lookup_manifest_by_name
#define BIT 0x008
#elif WHICH == 4
#define MAP _element_map
#define FIELD _name
#define LOOKUP lookup_element_by_name
#define BIT 0x010
#else
#define MAP _element_map
#define FIELD _scoped_name
#define LOOKUP lookup_element_by_scoped_name
#define BIT 0x020
#endif

#if WHICH <= 2
#define CACHE(db) (WHICH == 0 ? db->_types_by_name : WHICH == 1 ? db->_types_by_scoped_name : db->_types_by_true_name)
#elif WHICH == 3
#define CACHE(db) (db->_manifests_by_name)
#else
#define CACHE(db) (WHICH == 4 ? db->_elements_by_name : db->_elements_by_scoped_name)
#endif

// Stored names are enumerated concretely (a,b / b,a / a,a): with symbolic stored names the shape of the cache's
// std::map<std::string,int> is symbolic and symbolic execution alone takes 5 minutes.  The queried name, the stale
// cache bits are symbolic.
extern "C" void harness_c20_lookup() {
  static const char N1[3] = {'a', 'b', 'a'}, N2[3] = {'b', 'a', 'a'};
  for (int cfg = 0; cfg < 3; cfg++) {
    InterrogateDatabase *db = new InterrogateDatabase;
    char n1 = N1[cfg], n2 = N2[cfg];
    db->MAP[1].FIELD.assign(1, n1);
    db->MAP[2].FIELD.assign(1, n2);
    int qlen = nondet_int();
    ASSUME(qlen >= 0 && qlen <= 1);
    char q = nondet_char();
    ASSUME(q >= 'a' && q <= 'd');
    char qb[2];
    qb[0] = qlen ? q : 0; qb[1] = 0;
    std::string name(qb);
    int stale = nondet_int();
    ASSUME((stale & BIT) == 0);          // this cache is stale (as after construction / merge_from), the other bits are arbitrary
    db->_lookups_fresh = stale;
#if STALE_ENTRY
    // the cache still holds an entry of an entity that no longer has that name: it must not be returned
    CACHE(db)[std::string("d")] = 9;
#endif
    int r = db->LOOKUP(name);
    bool m1 = qlen == 1 && q == n1, m2 = qlen == 1 && q == n2;
    if (!m1 && !m2) ASSERT(r == 0, "C20 lookup: an unknown name returns 0 (also when a stale cache still lists it)");
    else {
      ASSERT((r == 1 && m1) || (r == 2 && m2), "C20 lookup: a stored name returns an entity bearing that name");
      if (m1 != m2) ASSERT(r == (m1 ? 1 : 2), "C20 lookup: a unique name returns the entity itself");
    }
    ASSERT(db->_lookups_fresh == (stale | BIT), "C20 lookup marks exactly its own cache fresh");
    ASSERT(db->LOOKUP(name) == r, "C20 lookup: asking again gives the same answer");
  }
  WITNESS();
}
