// C20 (d): by-name lookups (lookup() + the six freshen_* functions): a stored name returns an entity bearing that
// name (the entity itself when the name is unique), an unknown name returns 0, and a lookup made after the caches
// were invalidated reflects the new content.
#include "verif.h"
#include "interrogateDatabase.h"
#include <string>

#ifndef WHICH
#define WHICH 0
#endif
// one-character names over {a,b,c}; the queried name over {a,b,c,d} or empty
static char abc() { char c = nondet_char(); ASSUME(c >= 'a' && c <= 'c'); return c; }

#if WHICH == 0
#define MAP _type_map
#define FIELD _name
#define LOOKUP lookup_type_by_name
#define BIT 0x001
#elif WHICH == 1
#define MAP _type_map
#define FIELD _scoped_name
#define LOOKUP lookup_type_by_scoped_name
#define BIT 0x002
#elif WHICH == 2
#define MAP _type_map
#define FIELD _true_name
#define LOOKUP lookup_type_by_true_name
#define BIT 0x004
#elif WHICH == 3
#define MAP _manifest_map
#define FIELD _name
#define LOOKUP lookup_manifest_by_name
#define BIT 0x008
#elif WHICH == 4
#define MAP _element_map
#define FIELD _name
#define LOOKUP lookup_element_by_name
#define BIT 0x010
#else
#define MAP _element_map
#define FIELD _scoped_name
#define LOOKUP lookup_element_by_scoped_name
#define BIT 0x020
#endif

extern "C" void harness_c20_lookup() {
  InterrogateDatabase *db = new InterrogateDatabase;
  char n1 = abc(), n2 = abc();
  db->MAP[1].FIELD.assign(1, n1);
  db->MAP[2].FIELD.assign(1, n2);
  int qlen = nondet_int();
  ASSUME(qlen >= 0 && qlen <= 1);
  char q = nondet_char();
  ASSUME(q >= 'a' && q <= 'd');
  std::string name((size_t)qlen, q);
  int stale = nondet_int();
  ASSUME((stale & BIT) == 0);            // this cache is stale (as after construction / merge_from), the other bits are arbitrary
  db->_lookups_fresh = stale;

  int r = db->LOOKUP(name);
  bool m1 = qlen == 1 && q == n1, m2 = qlen == 1 && q == n2;
  if (!m1 && !m2) ASSERT(r == 0, "C20 lookup: an unknown name returns 0");
  else {
    ASSERT((r == 1 && m1) || (r == 2 && m2), "C20 lookup: a stored name returns an entity bearing that name");
    if (m1 != m2) ASSERT(r == (m1 ? 1 : 2), "C20 lookup: a unique name returns the entity itself");
  }
  ASSERT(db->_lookups_fresh == (stale | BIT), "C20 lookup marks exactly its own cache fresh");
  ASSERT(db->LOOKUP(name) == r, "C20 lookup: asking again gives the same answer");

  // new content arrives (what merge_from does): entity 3 is added and the caches are invalidated
  char n3 = abc();
  db->MAP[3].FIELD.assign(1, n3);
  db->_lookups_fresh = 0;
  int r2 = db->LOOKUP(name);
  bool m3 = qlen == 1 && q == n3;
  if (!m1 && !m2 && !m3) ASSERT(r2 == 0, "C20 lookup after reload: an unknown name returns 0");
  else ASSERT((r2 == 1 && m1) || (r2 == 2 && m2) || (r2 == 3 && m3), "C20 lookup after reload reflects the new content");
  if (m3 && !m1 && !m2) ASSERT(r2 == 3, "C20 lookup after reload finds an entity that was added");
  WITNESS();
}
