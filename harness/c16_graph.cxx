// C16: interrogate_module initialises every library once, base-class libraries first, and breaks dependency cycles
// without hanging and without giving up an ordering constraint that is on no cycle
// (write_python_table_native + find_dependency_cycle, interrogate_module.cxx:93-300).
//
// SYMBOLIC dependency graph over NL (2..4) libraries 'a'..: one global class per library; the class of library u
// has one base-class slot per other library v, and the edge bit E[u][v] decides whether that slot holds the global
// class of library v (a cross-library inheritance edge u -> v) or a class that is not global (no edge).  Every
// edge bit is either fixed by the catalogue entry (-DE_ONE / -DE_ZERO bit masks, bit u*NL+v) or FREE; the free bits
// form one symbolic bit vector (values CODE_FROM..CODE_TO-1), so one query decides a whole family of labelled
// digraphs, cyclic or not.  -DE_TYPEDEF: bit mask of edges that are made by a typedef (class u is a typedef wrapping
// the class of v) instead of a base class (at most one per u).
//
// The solver chooses the value of the bit vector; the harness branches on it (verif_same, models/casesplit.c) and
// every branch runs the real code on constants.  Feeding the symbolic bits into the tool directly was tried first:
// deps.insert() under a symbolic condition makes the node pointers of the std::set symbolic, every later
// erase/iteration dereferences them, and symbolic execution does not finish in 10 minutes even for NL=2 (2 bits).
// Cost is ~7 s per 4-library graph, which is what bounds the families in harness/cat/c16.py.
//
// The interrogate_* query functions are cut from interrogate_interface.cxx and answer from this database.
// Observation point: the "Referencing Library %s" progress message printed for each element of the ordered
// `libraries` vector in the loop that emits the LibraryDef declarations (the RegisterTypes / BuildInstants / defs[]
// loops iterate the same vector).
//
// Oracle (reference semantics computed on the bit matrix, no code shared with the tool):
//   * exactly NL libraries are referenced, each of 'a'.. exactly once;
//   * for every edge u -> v that is on NO dependency cycle (u is not reachable from v): v is initialised before u;
//   * termination: unwinding assertions of the ordering loop / find_dependency_cycle (nonterm_is_violation).
#include "verif.h"
#include "vstream.h"
#include "interrogate_interface.h"
#include <string>
#include <stdio.h>
#include <stdarg.h>
#include <string.h>
#ifndef NL
#define NL 3
#endif
#ifndef E_ONE
#define E_ONE 0u
#endif
#ifndef E_ZERO
#define E_ZERO 0u
#endif
#ifndef E_TYPEDEF
#define E_TYPEDEF 0u
#endif
#ifndef CODE_FROM
#define CODE_FROM 0u
#endif
#ifndef CODE_TO
#define CODE_TO 1u          // exclusive; 2^(number of free edge bits) covers the whole family
#endif
#define NTY (NL + 1)          // type indices 1..NL: the global classes; NL+1: a class that is not global

static std::ostream *the_out;
int write_python_table_native(std::ostream &out);
extern std::string module_name;
extern std::string library_name;

extern "C" {
bool verif_same(unsigned a, unsigned b);   // models/casesplit.c: a == b, hidden from the compiler's equality propagation
unsigned vp_count();
unsigned vp_char(unsigned i, unsigned j);
void vp_reset();
}
#ifdef VERIF_NATIVE
// native counterpart of models/printf.c
static unsigned char g_chars[64][4];
static unsigned g_n;
extern "C" int printf(const char *fmt, ...) {
  va_list ap;
  va_start(ap, fmt);
  if (strstr(fmt, "%s") && g_n < 64) {
    va_list aq;
    va_copy(aq, ap);
    const char *s = va_arg(aq, const char *);
    va_end(aq);
    strncpy((char *)g_chars[g_n], s, 4);
    g_n++;
  }
  int r = vfprintf(stdout, fmt, ap);
  va_end(ap);
  return r;
}
extern "C" unsigned vp_count() { return g_n; }
extern "C" unsigned vp_char(unsigned i, unsigned j) { return g_chars[i][j]; }
extern "C" void vp_reset() { g_n = 0; }
extern "C" bool verif_same(unsigned a, unsigned b) { return a == b; }
#endif

// ---- the database --------------------------------------------------------------------------------------------
static bool E[NL][NL];                 // E[u][v]: the class of library u depends on the class of library v
static char lib_name[NL + 1][2];       // library name of type t-1
static char mod_this[2] = "m";
static char scoped[2] = "T";
static int slot_lib[NL][NL];           // slot_lib[u][k]: the library the k-th base-class slot of class u may point to
static int n_slots[NL];
static int td_lib[NL];                 // library whose class the typedef of library u wraps, or -1

static bool valid_t(int t) { return t >= 1 && t <= NTY; }

extern "C" {
int interrogate_number_of_functions() { return 0; }
FunctionIndex interrogate_get_function(int n) { ASSERT(false, "C16 model: there is no function"); return 0; }
bool interrogate_function_has_library_name(FunctionIndex f) { return false; }
const char *interrogate_function_library_name(FunctionIndex f) { return lib_name[0]; }
int interrogate_number_of_global_types() { return NL; }
TypeIndex interrogate_get_global_type(int n) { ASSERT(n >= 0 && n < NL, "C16 model: global type number in range"); return n + 1; }
bool interrogate_type_is_global(TypeIndex t) { ASSERT(valid_t(t), "C16 model: type index valid"); return t <= NL; }
const char *interrogate_type_scoped_name(TypeIndex t) { return scoped; }
bool interrogate_type_has_module_name(TypeIndex t) { ASSERT(valid_t(t), "C16 model: type index valid"); return true; }
const char *interrogate_type_module_name(TypeIndex t) { return mod_this; }
bool interrogate_type_has_library_name(TypeIndex t) { ASSERT(valid_t(t), "C16 model: type index valid"); return t <= NL; }
const char *interrogate_type_library_name(TypeIndex t) { ASSERT(t >= 1 && t <= NL, "C16 model: only global classes have a library"); return lib_name[t - 1]; }
int interrogate_type_number_of_derivations(TypeIndex t) { ASSERT(valid_t(t), "C16 model: type index valid"); return t <= NL ? n_slots[t - 1] : 0; }
TypeIndex interrogate_type_get_derivation(TypeIndex t, int n) {
  ASSERT(t >= 1 && t <= NL && n >= 0 && n < n_slots[t - 1], "C16 model: derivation number in range");
  int v = slot_lib[t - 1][n];
  return E[t - 1][v] ? v + 1 : NTY;
}
bool interrogate_type_is_typedef(TypeIndex t) { ASSERT(valid_t(t), "C16 model: type index valid"); return t <= NL && td_lib[t - 1] >= 0; }
TypeIndex interrogate_type_wrapped_type(TypeIndex t) {
  ASSERT(t >= 1 && t <= NL && td_lib[t - 1] >= 0, "C16 model: wrapped type of a typedef");
  int v = td_lib[t - 1];
  return E[t - 1][v] ? v + 1 : NTY;
}
}

// One labelled digraph: the free edge bits are taken from `code` (bit i of code = i-th free edge in row-major order).
// noinline: a fresh frame per case, so that CBMC's per-frame loop counters start at 0 for every case.
static void __attribute__((noinline)) run_case(unsigned code) {
  for (int u = 0; u < NL; u++) {
    n_slots[u] = 0;
    td_lib[u] = -1;
    for (int v = 0; v < NL; v++) {
      unsigned bit = 1u << (u * NL + v);
      if (u == v) { E[u][v] = false; continue; }
      if (E_ONE & bit) E[u][v] = true;
      else if (E_ZERO & bit) { E[u][v] = false; continue; }  // a slot that could never hold an edge is not created
      else { E[u][v] = (code & 1u) != 0; code >>= 1; }
      if ((E_TYPEDEF & bit) && td_lib[u] < 0) td_lib[u] = v;
      else slot_lib[u][n_slots[u]++] = v;
    }
  }

  // reference semantics: reach[u][v] = u depends (transitively, in >= 1 step) on v
  bool reach[NL][NL];
  for (int u = 0; u < NL; u++)
    for (int v = 0; v < NL; v++) reach[u][v] = E[u][v];
  for (int k = 0; k < NL; k++)
    for (int u = 0; u < NL; u++)
      for (int v = 0; v < NL; v++) reach[u][v] = reach[u][v] || (reach[u][k] && reach[k][v]);

  vp_reset();
  write_python_table_native(*the_out);

  unsigned n = vp_count();
  ASSERT(n == NL, "C16 every library is referenced exactly once (number of references = number of libraries)");
  int pos[NL], times[NL];
  for (int u = 0; u < NL; u++) { pos[u] = -1; times[u] = 0; }
  bool shape_ok = true;
  for (unsigned i = 0; i < NL; i++) {
    if (i >= n) break;
    unsigned c = vp_char(i, 0);
    if (c < 'a' || c >= 'a' + NL || vp_char(i, 1) != 0) { shape_ok = false; continue; }
    times[c - 'a']++;
    pos[c - 'a'] = (int)i;
  }
  ASSERT(shape_ok, "C16 only libraries of the database are referenced");
  for (int u = 0; u < NL; u++)
    ASSERT(times[u] == 1, "C16 every library that contributes a class to the module is referenced exactly once");
  for (int u = 0; u < NL; u++)
    for (int v = 0; v < NL; v++)
      if (u != v) {
        ASSERT(!(E[u][v] && !reach[v][u]) || pos[v] < pos[u],
               "C16 a library is initialised after the library of a base class / typedef target unless the two are on a dependency cycle");
      }
}

extern "C" void harness_c16_graph() {
  __ll2c_global_ctors();                     // std::cerr for the cycle diagnostics; module_name / library_name
  module_name.push_back('m');
  library_name.push_back('L');
  the_out = vs_ostream_sink();
  for (int u = 0; u < NL; u++) { lib_name[u][0] = (char)('a' + u); lib_name[u][1] = 0; }

  // the symbolic input: the values of the free edge bits
  unsigned mask = nondet_uint();
  ASSUME(mask >= CODE_FROM && mask < CODE_TO);
  // Case split on the symbolic value: inside a branch the edge bits are constants, so the shape of the
  // std::map<string, set<string>> the tool builds is concrete on every path (a set whose membership is symbolic has
  // symbolic node pointers and symbolic execution does not finish even for two libraries).
  // Every case starts from the pristine state (the branch leaves the loop: no state of one case is merged into the next).
  for (unsigned code = CODE_FROM; code < CODE_TO; code++) {
    if (verif_same(mask, code)) { run_case(code); break; }
  }
  WITNESS();
}
