#!/bin/bash
# Real-binary confirmation for counterexamples of the C16 database clause (c16_main_*): build the tools from the
# repository under test, write two good databases and three kinds of unloadable ones (garbage, truncated, missing)
# and run interrogate_module with the bad database first / in the middle / last / alone.
# Exit 1 = some run with an unloadable database exited 0 or left its output file behind (violation confirmed),
# exit 0 = every such run was rejected, exit 2 = could not build / prepare.
# usage: c16_confirm.sh <repo> <scratch>
REPO=${1:-/repo}; SCR=${2:-/var/tmp/c16_confirm.$$}
B=$SCR/c16build
mkdir -p $B || exit 2
if [ ! -x $B/bin/interrogate_module ]; then
  (cmake -G Ninja -S $REPO -B $B -DCMAKE_BUILD_TYPE=Release -DBUILD_TESTING=OFF >$B.log 2>&1 && cmake --build $B -j16 >>$B.log 2>&1) || { echo "build failed"; tail -5 $B.log; exit 2; }
fi
export LD_LIBRARY_PATH=$B/lib${LD_LIBRARY_PATH:+:$LD_LIBRARY_PATH}
W=$SCR/c16work; rm -rf $W; mkdir -p $W/h; cd $W
cat > h/pub.h <<'H'
#define PUBLISHED __published
H
cat > h/base.h <<'H'
#include "pub.h"
class Base { PUBLISHED: Base(); int get_base(); };
H
cat > h/derived.h <<'H'
#include "base.h"
class Derived : public Base { PUBLISHED: Derived(); int get_derived(); };
H
gen() { lib=$1; shift
  $B/bin/interrogate -python-native -module m -library $lib -od $lib.in -oc $lib.cxx -S$REPO/parser-inc -DCPPPARSER -D__STDC__=1 \
    -D__cplusplus=201103L -I$W/h "$@" >gen_$lib.log 2>&1 || { echo "interrogate failed for $lib"; tail -5 gen_$lib.log; exit 2; }; }
gen lbase $W/h/base.h
gen lderived $W/h/derived.h
echo "this is not an interrogate database" > garbage.in
head -c $(( $(wc -c < lbase.in) / 2 )) lbase.in > truncated.in
bad=0
run() { rm -f mod.cxx; timeout 20 $B/bin/interrogate_module -python-native -module m -library m -oc mod.cxx "$@" >run.out 2>&1; rc=$?; }
run lderived.in lbase.in
if [ $rc -ne 0 ] || [ ! -s mod.cxx ]; then echo "cannot prepare: good databases are rejected (rc=$rc)"; exit 2; fi
reject() { run "$@"
  if [ $rc -eq 0 ] || [ -e mod.cxx ]; then echo "interrogate_module $* -> exit $rc, output $([ -e mod.cxx ] && echo LEFT BEHIND || echo absent)"; bad=1
  else echo "interrogate_module $* -> exit $rc, no output"; fi; }
for b in garbage.in truncated.in missing.in; do
  reject $b
  reject lbase.in lderived.in $b
  reject lbase.in $b lderived.in
  reject $b lbase.in lderived.in
done
exit $bad
