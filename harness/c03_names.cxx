// C03: string kernels behind generated wrapper symbols: InterrogateBuilder::hash_string and
// InterrogateBuilder::clean_identifier (make_safe_name is a thin alias of the latter, functionRemap.cxx:1035).
#include "verif.h"
#include "interrogateBuilder.h"
#include <string>
#ifndef LMAX
#define LMAX 3
#endif

static bool ident_char(char c) {
  return (c >= 'A' && c <= 'Z') || (c >= 'a' && c <= 'z') || (c >= '0' && c <= '9') || c == '_';
}
static bool alnum_char(char c) {
  return (c >= 'A' && c <= 'Z') || (c >= 'a' && c <= 'z') || (c >= '0' && c <= '9');
}

// symbolic byte string of length 0..LMAX (all 256 byte values)
static int sym_bytes(char *buf) {
  int len = nondet_int();
  ASSUME(len >= 0 && len <= LMAX);
  for (int i = 0; i < LMAX; i++) buf[i] = nondet_char();
  return len;
}

extern "C" void harness_c03_hash_string() {
  char buf[LMAX + 1];
  int len = sym_bytes(buf);
  std::string name(buf, (size_t)len);
  bool eleven = nondet_bool();
  std::string r = InterrogateBuilder::hash_string(name, eleven ? 11 : 5);
  ASSERT(r.size() == 4, "C03 hash_string result has exactly 4 characters");
  for (size_t i = 0; i < 4 && i < r.size(); i++)
    ASSERT(ident_char(r[i]), "C03 hash_string result uses only [A-Za-z0-9_]");
  WITNESS();
}

// Reference for the documented contract of clean_identifier: "replaces any consecutive invalid characters
// with an underscore" where invalid = not alphanumeric (an underscore itself counts as invalid and is
// re-emitted as the single replacement underscore); a trailing run has nothing to separate and is dropped.
static int ref_clean(const char *in, int len, char *out) {
  int n = 0; bool pending = false;
  for (int i = 0; i < len; i++) {
    if (alnum_char(in[i])) { if (pending) out[n++] = '_'; pending = false; out[n++] = in[i]; }
    else pending = true;
  }
  return n;
}

extern "C" void harness_c03_clean_identifier() {
  char buf[LMAX + 1];
  int len = sym_bytes(buf);
  std::string name(buf, (size_t)len);
  std::string r = InterrogateBuilder::clean_identifier(name);
  ASSERT(r.size() <= (size_t)len, "C03 clean_identifier never lengthens the name");
  // copy the result into a fixed array once (concrete indices from here on)
  int rs = (int)r.size();
  ASSUME(rs <= LMAX);   // just asserted
  const char *rd = r.data();
  char rc[LMAX + 1];
  for (int i = 0; i < LMAX; i++) rc[i] = i < rs ? rd[i] : 0;
  rc[LMAX] = 0;
  for (int i = 0; i < LMAX; i++)
    if (i < rs) {
      ASSERT(ident_char(rc[i]), "C03 clean_identifier output uses only [A-Za-z0-9_]");
      ASSERT(!(rc[i] == '_' && i + 1 < rs && rc[i + 1] == '_'), "C03 clean_identifier never emits a double underscore");
      ASSERT(!(rc[i] == '_' && i + 1 == rs), "C03 clean_identifier never emits a trailing underscore");
    }
  // reference run-collapsing transducer walked in lock step with the output
  int k = 0; bool pending = false, same = true;
  for (int i = 0; i < LMAX; i++)
    if (i < len) {
      if (alnum_char(buf[i])) {
        if (pending) { same = same && k < rs && rc[k] == '_'; k++; }
        pending = false;
        same = same && k < rs && rc[k] == buf[i]; k++;
      } else pending = true;
    }
  ASSERT(same && k == rs, "C03 clean_identifier equals the documented run-collapsing reference");
  bool canonical = true;            // alnum words separated by single underscores, optional leading underscore, no trailing one
  for (int i = 0; i < LMAX; i++)
    if (i < len) {
      if (!ident_char(buf[i])) canonical = false;
      if (buf[i] == '_' && (i + 1 == len || buf[i + 1] == '_')) canonical = false;
    }
  if (canonical) {
    bool id = rs == len;
    for (int i = 0; i < LMAX; i++) if (i < len && rc[i] != buf[i]) id = false;
    ASSERT(id, "C03 clean_identifier is the identity on identifiers in canonical form");
  }
  WITNESS();
}

// make_safe_name / clean_identifier turn scoped C++ names into parts of generated symbols (Dtool_<name>,
// Dtool_Ptr_<name>, xx_<name>_<index>): C03 demands that distinct entities get distinct symbols, i.e. the
// mapping must be injective on valid scoped names (identifiers joined by "::").
#ifndef SMAX
#define SMAX 4
#endif
static int sym_scoped_name(char *buf) {
  static const char A[4] = {'a', 'b', '_', ':'};
  int len = nondet_int();
  ASSUME(len >= 1 && len <= SMAX);
  for (int i = 0; i < SMAX; i++) { unsigned char k = nondet_uchar(); ASSUME(k < 4); buf[i] = A[k]; }
  // grammar: ident ("::" ident)*; colons come in pairs, never at either end, pairs never adjacent;
  // ident = letters separated by single underscores (no leading, trailing or double underscore: those spellings are
  // reserved in C++ and clean_identifier is documented to collapse them)
  ASSUME(buf[0] != ':' && buf[len - 1] != ':');
  ASSUME(buf[0] != '_' && buf[len - 1] != '_');
  for (int i = 0; i + 1 < SMAX; i++)
    if (i + 1 < len) ASSUME(!(buf[i] == '_' && (buf[i + 1] == '_' || buf[i + 1] == ':')) && !(buf[i] == ':' && buf[i + 1] == '_'));
  for (int i = 0; i < SMAX; i++)
    if (i < len && buf[i] == ':') {
      bool first = i + 1 < len && buf[i + 1] == ':' && (i == 0 || buf[i - 1] != ':');
      bool second = i >= 1 && buf[i - 1] == ':' && (i + 1 >= len || buf[i + 1] != ':') && (i < 2 || buf[i - 2] != ':');
      ASSUME(first || second);
    }
  return len;
}
extern "C" void harness_c03_safe_name_injective() {
  char x[SMAX + 1], y[SMAX + 1];
  int nx = sym_scoped_name(x), ny = sym_scoped_name(y);
  bool differ = nx != ny;
  for (int i = 0; i < SMAX; i++) if (i < nx && i < ny && x[i] != y[i]) differ = true;
  ASSUME(differ);
  std::string rx = InterrogateBuilder::clean_identifier(std::string(x, (size_t)nx));
  std::string ry = InterrogateBuilder::clean_identifier(std::string(y, (size_t)ny));
  int ax = (int)rx.size(), ay = (int)ry.size();
  ASSUME(ax <= SMAX && ay <= SMAX);
  const char *dx = rx.data(), *dy = ry.data();
  bool same = ax == ay;
  for (int i = 0; i < SMAX; i++) if (i < ax && i < ay && dx[i] != dy[i]) same = false;
  ASSERT(!same, "C03 distinct scoped C++ names map to distinct symbol fragments (make_safe_name is injective on valid names)");
  WITNESS();
}
