// C04: the export gates of InterrogateBuilder::scan_enum_type / scan_struct_type / scan_manifest: an entity is handed
// to get_type / add_manifest iff it comes from a header named on the command line (S_local, not a .c/.cxx file),
// is not in an ignorefile'd file, is not a template and has at least the requested visibility.
// Declaration objects are raw typed allocations with exactly the fields the gates read.
#include "verif.h"
#include "interrogateBuilder.h"
#include "interrogateDatabase.h"
#include "interrogateManifest.h"
#include "interrogate.h"
#include "cppEnumType.h"
#include "cppStructType.h"
#include "cppScope.h"
#include "cppManifest.h"
#include "cppFile.h"
#include "c03_native_globals.h"
#include <new>
#ifndef NMEM
#define NMEM 2
#endif

// ---- recorders replacing the cut functions ----
static int g_get_type_calls; static CPPType *g_get_type_arg; static bool g_get_type_global;
TypeIndex InterrogateBuilder::get_type(CPPType *type, bool global) {
  g_get_type_calls++; g_get_type_arg = type; g_get_type_global = global;
  return 5;
}
static InterrogateDatabase *g_db;
InterrogateDatabase *InterrogateDatabase::get_ptr() { return g_db; }
static int g_add_manifest_calls; static char g_manifest_name0; static int g_manifest_flags;
void InterrogateDatabase::add_manifest(ManifestIndex index, const InterrogateManifest &m) {
  g_add_manifest_calls++;
  g_manifest_name0 = m._name.size() == 1 ? m._name[0] : 0;
  g_manifest_flags = m._flags;
}
std::string CPPManifest::expand(const vector_string &args, bool expand_undefined, const Ignores &ignores) const {
  return std::string("1");
}
CPPType *CPPManifest::determine_type() const { return nullptr; }      // untyped manifest: no getter / value plumbing here

// ---- symbolic file + builder state shared by all gates ----
struct FileIn { bool is_c, ignored; int source; };

static CPPFile *g_proto;
static InterrogateBuilder *g_b;

static void __attribute__((noinline)) common_setup() {
  g_proto = new CPPFile(Filename("a.h"), Filename("a.h"), CPPFile::S_local);
  g_b = new InterrogateBuilder;
  min_vis = nondet_bool() ? V_public : V_published;          // -promiscuous or not
  // one ignorefile entry: "a.h" (the file of the declaration) or "b.h"
  std::string ign("a.h");
  bool hit = nondet_bool();
  if (!hit) ign[0] = 'b';
  g_b->_ignorefile.insert(ign);
  g_get_type_calls = 0; g_add_manifest_calls = 0;
}
// fills a declaration's CPPFile: symbolic source class and extension
static void __attribute__((noinline)) make_file(CPPFile *dst, FileIn *in) {
  new (dst) CPPFile(*g_proto);
  in->source = nondet_int();
  ASSUME(in->source >= (int)CPPFile::S_local && in->source <= (int)CPPFile::S_none);
  dst->_source = (CPPFile::Source)in->source;
  unsigned char e = nondet_uchar();
  ASSUME(e < 4);
  static const char EXT[4] = {'h', 'c', 'C', 'i'};
  dst->_filename._filename[2] = EXT[e];
  in->is_c = (e == 1 || e == 2);
}
static bool ignored_now() {
  // the single _ignorefile entry equals the referenced name "a.h" iff its first character is 'a'
  return (*g_b->_ignorefile.begin())[0] == 'a';
}
static bool file_ok(const FileIn &in) { return !in.is_c && in.source == (int)CPPFile::S_local && !ignored_now(); }

static int sym_vis() { int v = nondet_int(); ASSUME(v >= (int)V_published && v <= (int)V_unknown); return v; }

// ---- enum ----
static void __attribute__((noinline)) init_enum(CPPEnumType *t, CPPTemplateScope *ts, int vis) {
  t->_template_scope = ts; t->_vis = (CPPVisibility)vis;
}
extern "C" void harness_c04_gate_enum() {
  common_setup();
  FileIn fin;
  CPPEnumType *t = (CPPEnumType *)operator new(sizeof(CPPEnumType));
  bool tmpl = nondet_bool(); int vis = sym_vis();
  init_enum(t, tmpl ? (CPPTemplateScope *)g_proto : nullptr, vis);
  make_file(&t->_file, &fin);
  g_b->scan_enum_type(t);
  bool want = !tmpl && file_ok(fin) && vis <= (int)min_vis;
  ASSERT((g_get_type_calls != 0) == want, "C04 an enum is exported iff local header, not ignored, not a template, visible enough");
  if (g_get_type_calls) ASSERT(g_get_type_calls == 1 && g_get_type_arg == t && g_get_type_global, "C04 the enum itself is exported, once, as a global type");
  WITNESS();
}

// ---- struct: "or any member is visible" ----
static void __attribute__((noinline)) init_struct(CPPStructType *t, CPPTemplateScope *ts, int vis, CPPScope *sc) {
  t->_template_scope = ts; t->_vis = (CPPVisibility)vis; t->_scope = sc;
}
static void __attribute__((noinline)) init_scope(CPPScope *sc) { new (&sc->_declarations) CPPScope::Declarations(); }
static void __attribute__((noinline)) init_member(CPPEnumType *m, int vis) { m->_vis = (CPPVisibility)vis; }

static void __attribute__((noinline)) struct_scenario(int nmem) {
  common_setup();
  FileIn fin;
  CPPScope *sc = (CPPScope *)operator new(sizeof(CPPScope));
  init_scope(sc);
  int mvis[NMEM + 1]; bool any = false;
  for (int i = 0; i < nmem; i++) {
    CPPEnumType *m = (CPPEnumType *)operator new(sizeof(CPPEnumType));     // any declaration kind: only _vis is read
    mvis[i] = sym_vis();
    init_member(m, mvis[i]);
    sc->_declarations.push_back(m);
    if (mvis[i] <= (int)min_vis) any = true;
  }
  CPPStructType *t = (CPPStructType *)operator new(sizeof(CPPStructType));
  bool tmpl = nondet_bool(); int vis = sym_vis();
  init_struct(t, tmpl ? (CPPTemplateScope *)g_proto : nullptr, vis, sc);
  make_file(&t->_file, &fin);
  g_b->scan_struct_type(t);
  bool want = !tmpl && file_ok(fin) && (vis <= (int)min_vis || any);
  ASSERT((g_get_type_calls != 0) == want,
         "C04 a class is exported iff local header, not ignored, not a template, and it or one of its members is visible enough");
  if (g_get_type_calls) ASSERT(g_get_type_calls == 1 && g_get_type_arg == t && g_get_type_global, "C04 the class itself is exported, once, as a global type");
}
extern "C" void harness_c04_gate_struct() {
  for (int n = 0; n <= NMEM; n++) struct_scenario(n);
  WITNESS();
}

// ---- manifest ----
static void __attribute__((noinline)) init_manifest(CPPManifest *m, int vis, bool params, char name) {
  m->_vis = (CPPVisibility)vis; m->_has_parameters = params; m->_expr = nullptr;
  new (&m->_name) std::string(1, name);
}
static void __attribute__((noinline)) init_db(InterrogateDatabase *db) { db->_next_index = 1; }
extern "C" void harness_c04_gate_manifest() {
  common_setup();
  g_db = (InterrogateDatabase *)operator new(sizeof(InterrogateDatabase));
  init_db(g_db);
  FileIn fin;
  CPPManifest *m = (CPPManifest *)operator new(sizeof(CPPManifest));
  int vis = sym_vis(); bool params = nondet_bool(); char name = nondet_char();
  init_manifest(m, vis, params, name);
  make_file(&m->_loc.file, &fin);
  g_b->scan_manifest(m);
  bool want = file_ok(fin) && vis <= (int)min_vis && !params;
  ASSERT((g_add_manifest_calls != 0) == want, "C04 a #define is exported iff local header, not ignored, visible enough, not function-like");
  if (g_add_manifest_calls) ASSERT(g_add_manifest_calls == 1 && g_manifest_name0 == name, "C04 the manifest is stored once under its own name");
  ASSERT(g_get_type_calls == 0, "C04 an untyped manifest exports no type");
  WITNESS();
}
