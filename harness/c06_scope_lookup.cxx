// C06 (name lookup clause): an unqualified type name used inside a class names the entity C++ lookup finds:
// the class's own members, then the members of its base classes (NOT the namespaces enclosing a base), then the
// scopes enclosing the class.  The real CPPScope::find_type(name, recurse) runs on a concrete scope graph
//
//     [G]  ::                        struct K::Base                 { [using X = ...;] };
//     [K]  namespace K { ... }       struct L::Node : K::Base       { [using X = ...;] };
//     [L]  namespace L { ... }       struct   Widget : L::Node      { [using X = ...;]  X member; };
//
// in which WHICH of the six scopes G, K, L, Base, Node, Widget declare a type named X is symbolic (every scope's type
// table always holds one entry whose key is 'X' or 'Y' -- concrete structure, symbolic content), each declaring a
// different type object; so is the `recurse` flag.
#include "verif.h"
#include "cppScope.h"
#include "cppStructType.h"
#include "cppSimpleType.h"
#include "cppIdentifier.h"
#include "cppNameComponent.h"
#include <stdio.h>

CPPType *CPPType::new_type(CPPType *type) { return type; }

#ifndef VERIF_NATIVE
// std::map<std::string, CPPType *>::find (the _Rb_tree member, cut from the real TUs) with the same contract -- the node whose
// key equals k, else end() -- as an in-order scan with operator==.  The real binary search steers on `key < k`: with a
// symbolic key byte the node pointer becomes symbolic after the first comparison and may be the header, whose "key" is
// whatever follows the map inside CPPScope (a garbage std::string with symbolic length).  The native replay uses the real one.
typedef std::_Rb_tree<std::string, std::pair<const std::string, CPPType *>, std::_Select1st<std::pair<const std::string, CPPType *> >,
                      std::less<std::string>, std::allocator<std::pair<const std::string, CPPType *> > > TypesTree;
namespace std {
template<> TypesTree::const_iterator TypesTree::find(const std::string &k) const {
  const_iterator res = end();
  bool have = false;
  for (const_iterator it = begin(); it != end(); ++it) {
    bool same = (it->first == k);
    if (same && !have) { res = it; have = true; }
  }
  return res;
}
}
#endif

#define NOINL __attribute__((noinline))

NOINL static CPPScope *make_scope(CPPScope *parent, const char *name) {
  return new CPPScope(parent, CPPNameComponent(std::string(name)), V_public);
}

NOINL static CPPStructType *make_struct(CPPScope *parent, const char *name, CPPScope *&scope) {
  scope = make_scope(parent, name);
  CPPStructType *st = new CPPStructType(CPPExtensionType::T_struct, new CPPIdentifier(std::string(name)), parent, scope, CPPFile());
  scope->set_struct_type(st);
  st->_incomplete = false;
  parent->_types.insert(CPPScope::Types::value_type(std::string(name), st));
  return st;
}

// the scope's own declaration "X" (or, when the scope does not declare X, an unrelated "Y")
NOINL static CPPType *declare(CPPScope *scope, CPPSimpleType::Type t, bool declares_x) {
  CPPType *type = new CPPSimpleType(t);
  std::pair<CPPScope::Types::iterator, bool> r = scope->_types.insert(CPPScope::Types::value_type(std::string("X"), type));
  char *key = const_cast<char *>(r.first->first.data());
  key[0] = declares_x ? 'X' : 'Y';                  // written in place: the map keeps its concrete shape ("Base" < "Node" < "Widget" < "X" < "Y")
  return type;
}

extern "C" void harness_c06_scope_lookup() {
  bool in_g = nondet_bool(), in_k = nondet_bool(), in_l = nondet_bool();
  bool in_base = nondet_bool(), in_node = nondet_bool(), in_widget = nondet_bool();
  bool recurse = nondet_bool();

  CPPScope *G = make_scope(nullptr, "");
  CPPScope *K = make_scope(G, "K");
  CPPScope *L = make_scope(G, "L");
  CPPScope *base_scope, *node_scope, *widget_scope;
  CPPStructType *base = make_struct(K, "Base", base_scope);
  CPPStructType *node = make_struct(L, "Node", node_scope);
  CPPStructType *widget = make_struct(G, "Widget", widget_scope);
  node->append_derivation(base, V_public, false);        // struct L::Node : K::Base
  widget->append_derivation(node, V_public, false);      // struct Widget : L::Node

  CPPType *x_g = declare(G, CPPSimpleType::T_int, in_g);
  CPPType *x_k = declare(K, CPPSimpleType::T_char, in_k);
  CPPType *x_l = declare(L, CPPSimpleType::T_float, in_l);
  CPPType *x_base = declare(base_scope, CPPSimpleType::T_double, in_base);
  CPPType *x_node = declare(node_scope, CPPSimpleType::T_bool, in_node);
  CPPType *x_widget = declare(widget_scope, CPPSimpleType::T_wchar_t, in_widget);

  CPPType *found = widget_scope->find_type(std::string("X"), recurse);

  // [basic.lookup.unqual] + [class.member.lookup]
  CPPType *expected = in_widget ? x_widget : in_node ? x_node : in_base ? x_base : (recurse && in_g) ? x_g : nullptr;
#ifdef VERIF_NATIVE
  printf("X declared in: ::=%d K=%d L=%d K::Base=%d L::Node=%d Widget=%d; struct Widget : L::Node, struct L::Node : K::Base\n",
         in_g, in_k, in_l, in_base, in_node, in_widget);
  const char *who[2] = {"expected", "found"};
  CPPType *what[2] = {expected, found};
  for (int i = 0; i < 2; i++) {
    CPPType *t = what[i];
    printf("  Widget scope find_type(\"X\", recurse=%d) %s: %s\n", (int)recurse, who[i],
           t == nullptr ? "nothing" : t == x_g ? "::X" : t == x_k ? "K::X" : t == x_l ? "L::X" : t == x_base ? "K::Base::X" :
           t == x_node ? "L::Node::X" : t == x_widget ? "Widget::X" : "something else");
  }
#endif
  ASSERT(found != x_l && found != x_k, "C06 a type name used in a class is never looked up in the namespace enclosing a base class");
  ASSERT(found == expected, "C06 unqualified type lookup from a class scope: own members, then base class members, then enclosing scopes");

  // the same name looked up from the base class's own scope does see its namespace (L::Node: Node, Base, L, ::)
  CPPType *from_node = node_scope->find_type(std::string("X"), true);
  CPPType *expected_node = in_node ? x_node : in_base ? x_base : in_l ? x_l : in_g ? x_g : nullptr;
  ASSERT(from_node == expected_node, "C06 unqualified type lookup from the base class scope: members, base members, its namespace, global");
  WITNESS();
}
