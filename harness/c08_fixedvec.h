// Shared by the C08/C15 CPPManifest harnesses.
//
// libstdc++'s vector growth (_M_realloc_insert: allocate 1,2,4,8 elements,
// relocate everything, free) is by far the most expensive thing the kernels
// under test do under symbolic execution, and it is not what is being checked.
// The two instantiations used by cppManifest.cxx are replaced here (catalogue:
// cut=[...]) by a growth policy with the same observable behaviour: the first
// push_back into an empty vector allocates room for VCAP elements in ONE typed
// allocation, later push_backs use the ordinary in-capacity fast path.  Running
// out of the VCAP elements is an assertion failure, never silently ignored.
#ifndef C08_FIXEDVEC_H
#define C08_FIXEDVEC_H
#include "verif.h"
#include "cppManifest.h"
#include <string>
#include <vector>
#include <new>

#ifndef VCAP
#define VCAP 8
#endif

struct VerifStringSlots { std::string s[VCAP]; };
struct VerifNodeSlots { CPPManifest::ExpansionNode s[VCAP]; };

template<> template<>
void std::vector<std::string>::_M_realloc_insert<std::string>(iterator pos, std::string &&x) {
  if (_M_impl._M_start != nullptr || pos.base() != _M_impl._M_finish) {
    ASSERT(false, "harness: vector<string> grew beyond the VCAP elements reserved by c08_fixedvec.h");
    ASSUME(false);
  }
  VerifStringSlots *sl = (VerifStringSlots *)::operator new(sizeof(VerifStringSlots));
  _M_impl._M_start = &sl->s[0];
  _M_impl._M_finish = &sl->s[0];
  _M_impl._M_end_of_storage = &sl->s[0] + VCAP;
  ::new ((void *)_M_impl._M_finish) std::string(std::move(x));
  ++_M_impl._M_finish;
}

template<> template<>
void std::vector<CPPManifest::ExpansionNode>::_M_realloc_insert<CPPManifest::ExpansionNode>(iterator pos, CPPManifest::ExpansionNode &&x) {
  if (_M_impl._M_start != nullptr || pos.base() != _M_impl._M_finish) {
    ASSERT(false, "harness: vector<ExpansionNode> grew beyond the VCAP elements reserved by c08_fixedvec.h");
    ASSUME(false);
  }
  VerifNodeSlots *sl = (VerifNodeSlots *)::operator new(sizeof(VerifNodeSlots));
  _M_impl._M_start = &sl->s[0];
  _M_impl._M_finish = &sl->s[0];
  _M_impl._M_end_of_storage = &sl->s[0] + VCAP;
  ::new ((void *)_M_impl._M_finish) CPPManifest::ExpansionNode(std::move(x));
  ++_M_impl._M_finish;
}

#define CUT_NOTE_FIXEDVEC 1
#endif
