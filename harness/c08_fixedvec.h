// Shared by the C08/C15 CPPManifest harnesses.
//
// libstdc++'s vector growth (_M_realloc_insert: allocate 1,2,4,8 elements,
// relocate everything, free) is by far the most expensive thing the kernels
// under test do under symbolic execution, and it is not what is being checked.
// The two instantiations used by cppManifest.cxx are replaced here (catalogue:
// cut=[...]) by a growth policy with the same observable behaviour: the first
// push_back into an empty vector allocates room for VCAP elements in ONE
// allocation, later push_backs use the ordinary in-capacity fast path.  Running
// out of the VCAP elements is an assertion failure, never silently ignored.
#ifndef C08_FIXEDVEC_H
#define C08_FIXEDVEC_H
#include "verif.h"
#include "cppManifest.h"
#include <string>
#include <vector>
#include <new>

#ifndef VCAP
#define VCAP 8
#endif

// (Measured: giving these allocations a struct type for the solver, so that the strings' fields stay separate, made
// the extract_args query about twice as slow as the plain byte-array object; they are left untyped.)
struct VerifStringSlots { std::string s[VCAP]; };
struct VerifNodeSlots { CPPManifest::ExpansionNode s[VCAP]; };

template<> template<>
void std::vector<std::string>::_M_realloc_insert<std::string>(iterator pos, std::string &&x) {
  if (_M_impl._M_start != nullptr || pos.base() != _M_impl._M_finish) {
    ASSERT(false, "model: vector<string> grew beyond the VCAP elements reserved by harness/c08_fixedvec.h");
    ASSUME(false);
  }
  VerifStringSlots *sl = (VerifStringSlots *)::operator new(sizeof(VerifStringSlots));
  _M_impl._M_start = &sl->s[0];
  _M_impl._M_finish = &sl->s[0];
  _M_impl._M_end_of_storage = &sl->s[0] + VCAP;
  ::new ((void *)_M_impl._M_finish) std::string(std::move(x));
  ++_M_impl._M_finish;
}

template<> template<>
void std::vector<CPPManifest::ExpansionNode>::_M_realloc_insert<CPPManifest::ExpansionNode>(iterator pos, CPPManifest::ExpansionNode &&x) {
  if (_M_impl._M_start != nullptr || pos.base() != _M_impl._M_finish) {
    ASSERT(false, "model: vector<ExpansionNode> grew beyond the VCAP elements reserved by harness/c08_fixedvec.h");
    ASSUME(false);
  }
  VerifNodeSlots *sl = (VerifNodeSlots *)::operator new(sizeof(VerifNodeSlots));
  _M_impl._M_start = &sl->s[0];
  _M_impl._M_finish = &sl->s[0];
  _M_impl._M_end_of_storage = &sl->s[0] + VCAP;
  ::new ((void *)_M_impl._M_finish) CPPManifest::ExpansionNode(std::move(x));
  ++_M_impl._M_finish;
}

// A std::string of symbolic length len <= cap <= 15 and symbolic contents, built so that
//  (a) no heap path exists in the encoded program: constructing from a *symbolic* length drags libstdc++'s "longer
//      than 15 bytes -> allocate" branch along, and that allocation (an object of symbolic size) then sits in the
//      points-to set of every later read of the string;
//  (b) nothing is ever stored at a symbolic offset inside the string object: such a store (e.g. the terminating NUL
//      at [len]) is encoded as an update of the whole object, after which the solver no longer knows the object's
//      own data pointer and every later s[i] becomes a read through an unknown pointer.
// So: the caller zero-fills buf[len..cap], the string is constructed with the *constant* length cap (the heap branch
// folds away at compile time, the NUL lands at the constant offset cap), and only the length field is lowered.
#define SYMBOLIC_STRING(name, buf, cap, len) \
  std::string name((buf), (size_t)(cap));    \
  name._M_string_length = (size_t)(len)
// buf[i] = (i < len) ? <symbolic char from pick()> : 0, for i in 0..cap
#define FILL_SYMBOLIC(buf, cap, len, pick) \
  for (int i_ = 0; i_ < (cap); i_++) { char c_ = pick(); (buf)[i_] = (i_ < (len)) ? c_ : (char)0; } \
  (buf)[(cap)] = 0
#endif
