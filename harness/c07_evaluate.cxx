// C07/C15: CPPExpression::evaluate on expression trees built by the real constructors.
#include "verif.h"
#include "cppExpression.h"
#include "cppBison.h"

#ifndef DEPTH
#define DEPTH 1
#endif

static const int BINOPS[] = {'*', '/', '%', '+', '-', '|', '&', '^', OROR, ANDAND, EQCOMPARE, NECOMPARE, LECOMPARE,
                             GECOMPARE, SPACESHIP, '<', '>', LSHIFT, RSHIFT, ','};
#define NBIN ((int)(sizeof(BINOPS) / sizeof(BINOPS[0])))
static const int UNOPS[] = {UNARY_NOT, UNARY_NEGATE, UNARY_MINUS, UNARY_PLUS};
#define NUN ((int)(sizeof(UNOPS) / sizeof(UNOPS[0])))

struct Ref { bool defined; long v; };     // value a C++ compiler computes; !defined = not a constant expression / outside int

static Ref ref_bin(int op, Ref a, Ref b) {
  Ref r; r.defined = a.defined && b.defined; r.v = 0;
  if (!r.defined) return r;
  long x = a.v, y = b.v;
  switch (op) {
  case '*': r.v = x * y; break;
  case '/': if (y == 0) r.defined = false; else r.v = x / y; break;
  case '%': if (y == 0 || (x == -2147483647L - 1 && y == -1)) r.defined = false; else r.v = x % y; break;
  case '+': r.v = x + y; break;
  case '-': r.v = x - y; break;
  case '|': r.v = x | y; break;
  case '&': r.v = x & y; break;
  case '^': r.v = x ^ y; break;
  case OROR: r.v = (x != 0 || y != 0); break;
  case ANDAND: r.v = (x != 0 && y != 0); break;
  case EQCOMPARE: r.v = x == y; break;
  case NECOMPARE: r.v = x != y; break;
  case LECOMPARE: r.v = x <= y; break;
  case GECOMPARE: r.v = x >= y; break;
  case SPACESHIP: r.v = (x > y) - (x < y); break;
  case '<': r.v = x < y; break;
  case '>': r.v = x > y; break;
  case LSHIFT: if (y < 0 || y >= 31 || x < 0) r.defined = false; else r.v = x << y; break;
  case RSHIFT: if (y < 0 || y >= 31) r.defined = false; else r.v = x >> y; break;   // arithmetic shift of negative values, as every C++ compiler (and C++20) computes it
  case ',': r.v = y; break;
  }
  if (r.v > 2147483647L || r.v < -2147483647L - 1) r.defined = false;   // the property's precondition: fits in int
  return r;
}
static Ref ref_un(int op, Ref a) {
  Ref r = a;
  if (!r.defined) return r;
  switch (op) {
  case UNARY_NOT: r.v = !a.v; break;
  case UNARY_NEGATE: r.v = ~a.v; break;
  case UNARY_MINUS: r.v = -a.v; break;
  case UNARY_PLUS: break;
  }
  if (r.v > 2147483647L || r.v < -2147483647L - 1) r.defined = false;
  return r;
}

// OPSET 0: every binary operator except * / % with leaves over all of int.
// OPSET 1: * / % (symbolic-by-symbolic multiply/divide is SAT-hard at full width) with leaves in
//          [-LEAFMAX, LEAFMAX] plus INT_MIN and INT_MAX, which contain /0, %0 and INT_MIN / -1.
#ifndef OPSET
#define OPSET 0
#endif
#ifndef LEAFMAX
#define LEAFMAX 0
#endif
static CPPExpression *leaf(Ref &r) {
  int v = nondet_int();
#if LEAFMAX > 0
  ASSUME((v >= -LEAFMAX && v <= LEAFMAX) || v == 2147483647 || v == -2147483647 - 1);
#endif
  r.defined = true; r.v = v;
  return new CPPExpression(v);
}

// one binary node over two leaves.  The operator token is enumerated by a concrete loop (unrolled by the
// symbolic executor inside the one query): a *symbolic* scalar stored next to the operand pointers in the
// expression's union defeats CBMC's constant propagation of those pointers.
extern "C" void harness_c07_binary() {
  Ref a, b;
  CPPExpression *x = leaf(a), *y = leaf(b);
  for (int oi = 0; oi < NBIN; oi++) {
    int op = BINOPS[oi];
    bool muldiv = (op == '*' || op == '/' || op == '%');
    if (muldiv != (OPSET == 1)) continue;
    Ref want = ref_bin(op, a, b);
    // division/modulo by zero and INT_MIN / -1 are not constant expressions: the evaluator must say "error",
    // never trap.  (CBMC's division checks are on for the real code.)
    CPPExpression *e = new CPPExpression(op, x, y);
    CPPExpression::Result r = e->evaluate();
    if (want.defined) {
      ASSERT(r._type == CPPExpression::RT_integer, "C07 integer binary expression evaluates to an integer");
      ASSERT(r._type != CPPExpression::RT_integer || r._u._integer == (int)want.v, "C07 binary operator value equals the C++ value");
    } else if ((op == '/' || op == '%') && b.v == 0) {
      ASSERT(r._type == CPPExpression::RT_error, "C07 division by zero is reported as unevaluated, never a number");
    }
  }
  WITNESS();
}

extern "C" void harness_c07_unary() {
  Ref a;
  CPPExpression *x = leaf(a);
  for (int oi = 0; oi < NUN; oi++) {
    int op = UNOPS[oi];
    Ref want = ref_un(op, a);
    CPPExpression *e = new CPPExpression(op, x);
    CPPExpression::Result r = e->evaluate();
    if (want.defined) {
      ASSERT(r._type == CPPExpression::RT_integer, "C07 integer unary expression evaluates to an integer");
      ASSERT(r._type != CPPExpression::RT_integer || r._u._integer == (int)want.v, "C07 unary operator value equals the C++ value");
    }
  }
  WITNESS();
}

// (a op1 b) op2 c  and  c ? a : b  with symbolic operators
extern "C" void harness_c07_nested() {
  __ll2c_global_ctors();
  Ref a, b, c;
  CPPExpression *x = leaf(a), *y = leaf(b), *z = leaf(c);
  int o1 = nondet_int(), o2 = nondet_int();
  ASSUME(o1 >= 0 && o1 < NBIN && o2 >= 0 && o2 < NBIN);
  bool tern = nondet_bool();
  Ref want;
  CPPExpression *top;
  if (tern) {
    top = new CPPExpression('?', z, x, y);
    want = c.v ? a : b;
  } else {
    Ref inner = ref_bin(BINOPS[o1], a, b);
    // short-circuit: || and && do not need a defined right operand when the left decides
    want = ref_bin(BINOPS[o2], inner, c);
    top = new CPPExpression(BINOPS[o2], new CPPExpression(BINOPS[o1], x, y), z);
  }
  CPPExpression::Result r = top->evaluate();
  if (want.defined) {
    ASSERT(r._type == CPPExpression::RT_integer, "C07 nested integer expression evaluates to an integer");
    ASSERT(r._type != CPPExpression::RT_integer || r._u._integer == (int)want.v, "C07 nested expression value equals the C++ value");
  }
  WITNESS();
}
