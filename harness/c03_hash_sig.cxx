// C03: InterfaceMaker::hash_function_signature resolves every pattern of hash collisions into pairwise
// distinct wrapper hashes.  InterrogateBuilder::hash_string is cut and replaced by a table of 4-character
// identifiers indexed by (signature, shift offset).  What the function's behaviour can depend on is the EQUALITY
// PATTERN among the first-level hashes and among the second-level hashes (std::map semantics do not depend on
// key order), so the harness enumerates every pair of set partitions of the KMAX signatures (restricted-growth
// strings) with concrete keys: first-level, second-level, three-way and mixed collisions are all covered.
// (Keys with symbolic characters make the shape of the red-black tree symbolic; CBMC then needs > 10 min for
// two remaps.  Concrete keys per pattern keep every pointer concrete.)
// The names that are EMITTED (wrapper symbol, unique name) are formed from _hash right after each remap's own call and
// never recomputed, so the harness snapshots _hash after every insertion and requires the snapshots - not only the final
// _hash values - to be pairwise distinct (a first remap whose _hash is extended later keeps its short name: the
// nullptr placeholder under the short key is what reserves it against a third collision).  Every insertion order of the
// signatures is run (one catalogue entry per order), so every relative order of keys and insertions occurs.
#include "verif.h"
#include "interfaceMaker.h"
#include "interrogateBuilder.h"
#include "functionRemap.h"
#include "c03_native_globals.h"
#include <string>
#include <string.h>
#include <new>
#ifndef KMAX
#define KMAX 3
#endif
#ifndef P1
#define P1 0
#endif
#ifndef P2LO
#define P2LO 0
#define P2HI 99
#endif
#define NPATMAX 15        // Bell(4)

static const char ALPHA[] = "az_A";       // label -> character; includes 'a'/'z' (the letters the last-resort loop appends)
static char g_tab[2][KMAX][4];
static int g_calls;
extern "C" { int c03_four = 4; }

// stand-in for the real hash: signatures are "s0", "s1", ...; row = offset (5 -> 0, 11 -> 1)
std::string InterrogateBuilder::hash_string(const std::string &name, int shift_offset) {
  g_calls++;
  int idx = name[1] - '0';
  const char *row = g_tab[shift_offset == 5 ? 0 : 1][idx];
  // the length is read from a global the compiler cannot fold: a constant 4-byte copy would be emitted as one 32-bit
  // store into the string's byte buffer, which CBMC's constant propagation does not see through (keys would look symbolic)
  return std::string(row, (size_t)c03_four);
}

static bool ident_char(char c) {
  return (c >= 'A' && c <= 'Z') || (c >= 'a' && c <= 'z') || (c >= '0' && c <= '9') || c == '_';
}

static bool __attribute__((noinline)) str_eq(const std::string &a, const std::string &b) {
  if (a.size() != b.size()) return false;
  const char *x = a.data(), *y = b.data();
  size_t n = a.size();
  bool eq = true;
  for (size_t i = 0; i < 9; i++) if (i < n && x[i] != y[i]) eq = false;
  return eq;
}

// only the two fields hash_function_signature touches are constructed
static void __attribute__((noinline)) init_remap(FunctionRemap *r, int s) {
  r->_is_valid = true;
  new (&r->_function_signature) std::string("s0");
  r->_function_signature[1] = (char)('0' + s);
  new (&r->_hash) std::string();
}

static unsigned char g_pat[NPATMAX][KMAX];
static int g_npat;

// all restricted-growth strings of length KMAX = all set partitions of the KMAX signatures
static void __attribute__((noinline)) make_patterns() {
  int total = 1;
  for (int i = 0; i < KMAX; i++) total *= KMAX;
  g_npat = 0;
  for (int code = 0; code < total; code++) {
    unsigned char c[KMAX];
    int x = code, mx = -1;
    bool ok = true;
    for (int i = 0; i < KMAX; i++) {
      c[i] = (unsigned char)(x % KMAX); x /= KMAX;
      if ((int)c[i] > mx + 1) ok = false;
      if ((int)c[i] > mx) mx = c[i];
    }
    if (!ok) continue;
    for (int i = 0; i < KMAX; i++) g_pat[g_npat][i] = c[i];
    g_npat++;
  }
}

// insertion orders: every permutation of the signatures (3 remaps); the identity only for other KMAX
#if KMAX == 3
#define NORDER 6
static const unsigned char ORDER[NORDER][KMAX] = {{0, 1, 2}, {0, 2, 1}, {1, 0, 2}, {1, 2, 0}, {2, 0, 1}, {2, 1, 0}};
#else
#define NORDER 1
static unsigned char ORDER[NORDER][KMAX];
#endif
#ifndef ORDLO
#define ORDLO 0
#define ORDHI NORDER
#endif

// the wrapper symbol / unique name of a remap are formed from _hash IMMEDIATELY after its own hash_function_signature call
// (InterfaceMaker::make_function_remap: _unique_name = prefix + library_hash_name + _hash, _wrapper_name likewise) and
// are never recomputed when a LATER collision extends _hash: the emitted names are these snapshots, not the final _hash
static char g_name[KMAX][12];
static unsigned g_namelen[KMAX];
static void __attribute__((noinline)) take_name(int s, const std::string &h) {
  size_t n = h.size();
  const char *p = h.data();
  g_namelen[s] = (unsigned)n;
  for (size_t i = 0; i < 10; i++) g_name[s][i] = i < n ? p[i] : 0;
}
static bool __attribute__((noinline)) name_eq(int a, int b) {
  if (g_namelen[a] != g_namelen[b]) return false;
  bool eq = true;
  for (unsigned i = 0; i < 10; i++) if (i < g_namelen[a] && g_name[a][i] != g_name[b][i]) eq = false;
  return eq;
}

static void __attribute__((noinline)) scenario(int p1, int p2, int ord) {
  for (int s = 0; s < KMAX; s++)
    for (int c = 0; c < 4; c++) {
      g_tab[0][s][c] = c == 3 ? ALPHA[g_pat[p1][s]] : 'a';
      g_tab[1][s][c] = c == 0 ? ALPHA[g_pat[p2][s]] : 'z';
    }
  // raw InterfaceMaker (no vtable, no other members): hash_function_signature only uses _wrappers_by_hash
  // (no memset: a byte-wise write would make CBMC treat the object as a byte array instead of a struct)
  InterfaceMaker *im = (InterfaceMaker *)operator new(sizeof(InterfaceMaker));
  im->_def = nullptr;
  new (&im->_wrappers_by_hash) InterfaceMaker::WrappersByHash();
  FunctionRemap *r[KMAX];
  for (int s = 0; s < KMAX; s++) {
    // raw FunctionRemap (the pointer is handed to a function straight away so that the allocation is typed)
    FunctionRemap *x = (FunctionRemap *)operator new(sizeof(FunctionRemap));
    init_remap(x, s);
    r[s] = x;
  }
  int calls0 = g_calls;
  for (int i = 0; i < KMAX; i++) {
    int s = ORDER[ord][i];
    im->hash_function_signature(r[s]);
    take_name(s, r[s]->_hash);
    ASSERT(g_namelen[s] >= 4 && g_namelen[s] <= 9, "C03 wrapper name suffix is 4, 8 or 9 characters long");
  }
  ASSERT(g_calls - calls0 >= KMAX, "C03 every remap is hashed");
  // the names actually emitted (wrapper symbol = wrapper prefix + library hash + snapshot, unique name likewise)
  for (int s = 0; s < KMAX; s++)
    for (int t = s + 1; t < KMAX; t++)
      ASSERT(!name_eq(s, t), "C03 wrapper symbols / unique names of distinct signatures are pairwise distinct");

  for (int s = 0; s < KMAX; s++) {
    size_t n = r[s]->_hash.size();
    ASSERT(n >= 4 && n <= 9, "C03 wrapper hash is 4, 8 or 9 characters long");
    const char *p = r[s]->_hash.data();
    for (size_t i = 0; i < 9; i++)
      if (i < n) ASSERT(ident_char(p[i]), "C03 wrapper hash uses only identifier characters");
    for (int t = s + 1; t < KMAX; t++)
      ASSERT(!str_eq(r[s]->_hash, r[t]->_hash), "C03 wrapper hashes of distinct signatures are pairwise distinct");
    // the map knows the final hash of every remap (later collisions are detected against it)
    InterfaceMaker::WrappersByHash::iterator hi = im->_wrappers_by_hash.find(r[s]->_hash);
    ASSERT(hi != im->_wrappers_by_hash.end() && hi->second == r[s], "C03 _wrappers_by_hash maps every final hash to its remap");
  }
}

extern "C" void harness_c03_hash_signature() {
  __ll2c_global_ctors();
  make_patterns();
  ASSERT(g_npat == (KMAX == 2 ? 2 : KMAX == 3 ? 5 : 15), "C03 harness enumerates every set partition");
  // one catalogue entry per first-level partition P1 (symbolic execution slows down superlinearly with the number of
  // heap objects alive in one query), all second-level partitions inside
#if KMAX != 3
  for (int i = 0; i < KMAX; i++) ORDER[0][i] = (unsigned char)i;
#endif
  for (int ord = ORDLO; ord < ORDHI && ord < NORDER; ord++)
    for (int p2 = P2LO; p2 < g_npat && p2 < P2HI; p2++) scenario(P1, p2, ord);
  WITNESS();
}
