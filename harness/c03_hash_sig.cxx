// C03: InterfaceMaker::hash_function_signature resolves every pattern of hash collisions into pairwise
// distinct wrapper hashes.  InterrogateBuilder::hash_string is cut and replaced by a table of 4-character
// identifiers indexed by (signature, shift offset).  What the function's behaviour can depend on is the EQUALITY
// PATTERN among the first-level hashes and among the second-level hashes (std::map semantics do not depend on
// key order), so the harness enumerates every pair of set partitions of the KMAX signatures (restricted-growth
// strings) with concrete keys: first-level, second-level, three-way and mixed collisions are all covered.
// (Keys with symbolic characters make the shape of the red-black tree symbolic; CBMC then needs > 10 min for
// two remaps.  Concrete keys per pattern keep every pointer concrete.)
#include "verif.h"
#include "interfaceMaker.h"
#include "interrogateBuilder.h"
#include "functionRemap.h"
#include "c03_native_globals.h"
#include <string>
#include <string.h>
#include <new>
#ifndef KMAX
#define KMAX 3
#endif
#ifndef P1
#define P1 0
#endif
#ifndef P2LO
#define P2LO 0
#define P2HI 99
#endif
#define NPATMAX 15        // Bell(4)

static const char ALPHA[] = "az_A";       // label -> character; includes 'a'/'z' (the letters the last-resort loop appends)
static char g_tab[2][KMAX][4];
static int g_calls;
extern "C" { int c03_four = 4; }

// stand-in for the real hash: signatures are "s0", "s1", ...; row = offset (5 -> 0, 11 -> 1)
std::string InterrogateBuilder::hash_string(const std::string &name, int shift_offset) {
  g_calls++;
  int idx = name[1] - '0';
  const char *row = g_tab[shift_offset == 5 ? 0 : 1][idx];
  // the length is read from a global the compiler cannot fold: a constant 4-byte copy would be emitted as one 32-bit
  // store into the string's byte buffer, which CBMC's constant propagation does not see through (keys would look symbolic)
  return std::string(row, (size_t)c03_four);
}

static bool ident_char(char c) {
  return (c >= 'A' && c <= 'Z') || (c >= 'a' && c <= 'z') || (c >= '0' && c <= '9') || c == '_';
}

static bool __attribute__((noinline)) str_eq(const std::string &a, const std::string &b) {
  if (a.size() != b.size()) return false;
  const char *x = a.data(), *y = b.data();
  size_t n = a.size();
  bool eq = true;
  for (size_t i = 0; i < 9; i++) if (i < n && x[i] != y[i]) eq = false;
  return eq;
}

// only the two fields hash_function_signature touches are constructed
static void __attribute__((noinline)) init_remap(FunctionRemap *r, int s) {
  r->_is_valid = true;
  new (&r->_function_signature) std::string("s0");
  r->_function_signature[1] = (char)('0' + s);
  new (&r->_hash) std::string();
}

static unsigned char g_pat[NPATMAX][KMAX];
static int g_npat;

// all restricted-growth strings of length KMAX = all set partitions of the KMAX signatures
static void __attribute__((noinline)) make_patterns() {
  int total = 1;
  for (int i = 0; i < KMAX; i++) total *= KMAX;
  g_npat = 0;
  for (int code = 0; code < total; code++) {
    unsigned char c[KMAX];
    int x = code, mx = -1;
    bool ok = true;
    for (int i = 0; i < KMAX; i++) {
      c[i] = (unsigned char)(x % KMAX); x /= KMAX;
      if ((int)c[i] > mx + 1) ok = false;
      if ((int)c[i] > mx) mx = c[i];
    }
    if (!ok) continue;
    for (int i = 0; i < KMAX; i++) g_pat[g_npat][i] = c[i];
    g_npat++;
  }
}

static void __attribute__((noinline)) scenario(int p1, int p2) {
  for (int s = 0; s < KMAX; s++)
    for (int c = 0; c < 4; c++) {
      g_tab[0][s][c] = c == 3 ? ALPHA[g_pat[p1][s]] : 'a';
      g_tab[1][s][c] = c == 0 ? ALPHA[g_pat[p2][s]] : 'z';
    }
  // raw InterfaceMaker (no vtable, no other members): hash_function_signature only uses _wrappers_by_hash
  // (no memset: a byte-wise write would make CBMC treat the object as a byte array instead of a struct)
  InterfaceMaker *im = (InterfaceMaker *)operator new(sizeof(InterfaceMaker));
  im->_def = nullptr;
  new (&im->_wrappers_by_hash) InterfaceMaker::WrappersByHash();
  FunctionRemap *r[KMAX];
  for (int s = 0; s < KMAX; s++) {
    // raw FunctionRemap (the pointer is handed to a function straight away so that the allocation is typed)
    FunctionRemap *x = (FunctionRemap *)operator new(sizeof(FunctionRemap));
    init_remap(x, s);
    r[s] = x;
  }
  int calls0 = g_calls;
  for (int s = 0; s < KMAX; s++) im->hash_function_signature(r[s]);
  ASSERT(g_calls - calls0 >= KMAX, "C03 every remap is hashed");

  for (int s = 0; s < KMAX; s++) {
    size_t n = r[s]->_hash.size();
    ASSERT(n >= 4 && n <= 9, "C03 wrapper hash is 4, 8 or 9 characters long");
    const char *p = r[s]->_hash.data();
    for (size_t i = 0; i < 9; i++)
      if (i < n) ASSERT(ident_char(p[i]), "C03 wrapper hash uses only identifier characters");
    for (int t = s + 1; t < KMAX; t++)
      ASSERT(!str_eq(r[s]->_hash, r[t]->_hash), "C03 wrapper hashes of distinct signatures are pairwise distinct");
    // the map knows the final hash of every remap (later collisions are detected against it)
    InterfaceMaker::WrappersByHash::iterator hi = im->_wrappers_by_hash.find(r[s]->_hash);
    ASSERT(hi != im->_wrappers_by_hash.end() && hi->second == r[s], "C03 _wrappers_by_hash maps every final hash to its remap");
  }
}

extern "C" void harness_c03_hash_signature() {
  __ll2c_global_ctors();
  make_patterns();
  ASSERT(g_npat == (KMAX == 2 ? 2 : KMAX == 3 ? 5 : 15), "C03 harness enumerates every set partition");
  // one catalogue entry per first-level partition P1 (symbolic execution slows down superlinearly with the number of
  // heap objects alive in one query), all second-level partitions inside
  for (int p2 = P2LO; p2 < g_npat && p2 < P2HI; p2++) scenario(P1, p2);
  WITNESS();
}
