// C10: interrogate's class traits (abstract, polymorphic, default-/copy-constructible, destructible) equal the C++
// compiler's, for one class A whose special members range over a feature-bit lattice.
//
// The class is built with the real constructors (CPPStructType, CPPScope, CPPInstance, CPPFunctionType,
// CPPFunctionGroup, CPPParameterList) the way the parser's actions leave it: add_declaration() stamps the access
// (_vis), check_for_constructor() stamps F_constructor / F_copy_constructor / F_destructor on the function type,
// handle_declaration() files functions under their name in CPPScope::_functions and data members in _variables,
// set_initializer() turns `= default` / `= delete` / `= 0` into SC_defaulted / SC_deleted / SC_pure_virtual.
// WHICH members exist is enumerated by a concrete loop (it changes the shape of the maps); HOW each is declared
// (user / =default / =delete / virtual, and its access) is symbolic content decided by the solver.
// The oracle (c10_oracle.h) is validated against g++ by harness/c10_oracle_check.py.
#include "verif.h"
#include "cppStructType.h"
#include "cppScope.h"
#include "cppInstance.h"
#include "cppFunctionType.h"
#include "cppFunctionGroup.h"
#include "cppParameterList.h"
#include "cppIdentifier.h"
#include "cppSimpleType.h"
#include "cppConstType.h"
#include "cppReferenceType.h"
#include "cppExpression.h"
#include "c10_oracle.h"
#include <stdio.h>

#ifndef MEMS
#define MEMS 0x01        // bit set of member kinds to go through (bit k = M_* value k)
#endif
#ifndef DTORS
#define DTORS 0          // 0: destructor absent or public and not deleted (the class is destructible); 1: any destructor
#endif
#ifndef PRESENCE
#define PRESENCE 0xffff  // bit set over the 16 presence patterns (bit p: dc = p&1, cc = p&2, dt = p&4, pv = p&8)
#endif
#ifndef KINDS
#define KINDS 0xfffffffffULL   // bit set over the 36 (dc kind, cc kind, dt kind) combinations: bit (dc-1)*12 + (cc-1)*4 + (dt-1)
#endif
#ifndef CHECKS
#define CHECKS 0x1f      // 1 default-constructible, 2 copy-constructible, 4 destructible, 8 abstract, 16 polymorphic
#endif

// uniquing of structurally equal types (a static std::set ordered by a virtual comparator) is cut: identity
CPPType *CPPType::new_type(CPPType *type) { return type; }

#define NOINL __attribute__((noinline))

static CPPType *t_void, *t_int, *t_const_int, *t_int_ref;

// what handle_declaration() does with a function declaration
NOINL static CPPInstance *add_function(CPPScope *scope, const char *name, CPPParameterList *params, int flags,
                                       int storage_class, int vis) {
  CPPFunctionType *ftype = new CPPFunctionType(t_void, params, flags);
  CPPInstance *inst = new CPPInstance(ftype, std::string(name), storage_class);
  inst->_vis = (CPPVisibility)vis;
  inst->_ident->_native_scope = scope;
  CPPFunctionGroup *fgroup;
  CPPScope::Functions::const_iterator fi = scope->_functions.find(name);
  if (fi == scope->_functions.end()) {
    fgroup = new CPPFunctionGroup(name);
    scope->_functions.insert(CPPScope::Functions::value_type(name, fgroup));
  } else {
    fgroup = (*fi).second;
  }
  fgroup->_instances.push_back(inst);
  return inst;
}

static int storage_of(int kind) {
  switch (kind) {
  case K_DEFAULT: return CPPInstance::SC_defaulted;
  case K_DELETE: return CPPInstance::SC_deleted;
  case K_VIRTUAL: return CPPInstance::SC_virtual;
  default: return 0;
  }
}

static int pick_vis() {
  int vis = nondet_int();
  ASSUME(vis >= A_PUBLIC && vis <= A_PRIVATE);
  return vis;
}

NOINL static void check_traits(CPPStructType *A, C10Bits b) {
#ifdef VERIF_NATIVE
  printf("class A: default ctor kind=%d access=%d, copy ctor kind=%d access=%d, destructor kind=%d access=%d, pure virtual=%d, member=%d\n",
         b.dc, b.dc_vis, b.cc, b.cc_vis, b.dt, b.dt_vis, b.pv, b.mem);
  printf("  (kind: 0 none 1 user 2 =default 3 =delete 4 virtual; access: 1 public 2 protected 3 private; member: 0 int, 1 const int, 2 int&, 3 int=0, 4 const int=0)\n");
  printf("  interrogate: abstract=%d polymorphic=%d destructible=%d default_constructible=%d copy_constructible=%d\n",
         (int)A->is_abstract(), (int)A->is_polymorphic(), (int)A->is_destructible(), (int)A->is_default_constructible(), (int)A->is_copy_constructible());
  printf("  C++ (g++):   abstract=%d polymorphic=%d destructible=%d default_constructible=%d copy_constructible=%d\n",
         (int)c10_abstract(b), (int)c10_polymorphic(b), (int)c10_destructible(b), (int)c10_default_constructible(b), (int)c10_copy_constructible(b));
#endif
#if CHECKS & 8
  ASSERT(A->is_abstract() == c10_abstract(b), "C10 is_abstract equals the C++ rule [class.abstract]");
#endif
#if CHECKS & 16
  ASSERT(A->is_polymorphic() == c10_polymorphic(b), "C10 is_polymorphic equals the C++ rule [class.virtual]");
#endif
#if CHECKS & 4
  ASSERT(A->is_destructible() == c10_destructible(b), "C10 is_destructible equals std::is_destructible [class.dtor]");
#endif
#if CHECKS & 1
  ASSERT(A->is_default_constructible() == c10_default_constructible(b),
         "C10 is_default_constructible equals std::is_default_constructible [class.default.ctor]");
#endif
#if CHECKS & 2
  ASSERT(A->is_copy_constructible() == c10_copy_constructible(b),
         "C10 is_copy_constructible equals std::is_copy_constructible [class.copy.ctor]");
#endif
}

// One class per presence pattern; HOW each present special member is declared is then varied in place: the kind
// (user / =default / =delete / virtual) by concrete loops -- SC_virtual and SC_deleted decide the SHAPE of the
// std::list that get_virtual_funcs builds, and a symbolic shape does not constant-propagate -- and the access by
// the solver (symbolic _vis).
NOINL static void check_class(int presence, int mem) {
  C10Bits b;
  b.dc = K_NONE; b.dc_vis = A_PUBLIC; b.cc = K_NONE; b.cc_vis = A_PUBLIC; b.dt = K_NONE; b.dt_vis = A_PUBLIC;
  b.pv = (presence & 8) ? 1 : 0;
  b.mem = mem;

  // class A { ... };
  CPPIdentifier *ident = new CPPIdentifier(std::string("A"));
  CPPScope *scope = new CPPScope(nullptr, CPPNameComponent("A"), V_private);
  CPPStructType *A = new CPPStructType(CPPExtensionType::T_class, ident, nullptr, scope, CPPFile());
  scope->set_struct_type(A);
  A->_incomplete = false;

  CPPInstance *dc = nullptr, *cc = nullptr, *dt = nullptr;
  if (presence & 1) {                                   // A();
    dc = add_function(scope, "A", new CPPParameterList, CPPFunctionType::F_constructor, 0, A_PUBLIC);
  }
  if (presence & 2) {                                   // A(const A &);
    CPPParameterList *params = new CPPParameterList;
    CPPType *const_a_ref = new CPPReferenceType(new CPPConstType(A), CPPReferenceType::VC_lvalue);
    params->_parameters.push_back(new CPPInstance(const_a_ref, std::string("copy")));
    cc = add_function(scope, "A", params, CPPFunctionType::F_constructor | CPPFunctionType::F_copy_constructor, 0, A_PUBLIC);
  }
  if (presence & 4) {                                   // ~A();
    dt = add_function(scope, "~A", new CPPParameterList, CPPFunctionType::F_destructor, 0, A_PUBLIC);
  }
  if (presence & 8) {                                   // virtual void f() = 0;
    add_function(scope, "f", new CPPParameterList, 0, CPPInstance::SC_virtual | CPPInstance::SC_pure_virtual, A_PUBLIC);
  }
  {                                                     // the data member
    CPPType *mt = (mem == M_CONST_INT || mem == M_CONST_INT_INIT) ? t_const_int : (mem == M_INT_REF ? t_int_ref : t_int);
    CPPInstance *m = new CPPInstance(mt, std::string("m"));
    m->_vis = V_public;
    if (mem == M_INT_INIT || mem == M_CONST_INT_INIT) m->_initializer = new CPPExpression(0);
    scope->_variables[std::string("m")] = m;
  }

  for (int dck = K_USER; dck <= K_DELETE; dck++) {
    if (!dc && dck != K_USER) continue;
    for (int cck = K_USER; cck <= K_DELETE; cck++) {
      if (!cc && cck != K_USER) continue;
      for (int dtk = K_USER; dtk <= K_VIRTUAL; dtk++) {
        if (!dt && dtk != K_USER) continue;
        if (!((KINDS >> ((dck - 1) * 12 + (cck - 1) * 4 + (dtk - 1))) & 1)) continue;
        if (dc) { b.dc = dck; b.dc_vis = pick_vis(); dc->_storage_class = storage_of(dck); dc->_vis = (CPPVisibility)b.dc_vis; }
        if (cc) { b.cc = cck; b.cc_vis = pick_vis(); cc->_storage_class = storage_of(cck); cc->_vis = (CPPVisibility)b.cc_vis; }
        if (dt) {
          b.dt = dtk; b.dt_vis = pick_vis(); dt->_storage_class = storage_of(dtk); dt->_vis = (CPPVisibility)b.dt_vis;
#if DTORS == 0
          if (dtk == K_DELETE) continue;
          ASSUME(b.dt_vis == A_PUBLIC);
#endif
        }
        check_traits(A, b);
      }
    }
  }
}

extern "C" void harness_c10_traits() {
  t_void = new CPPSimpleType(CPPSimpleType::T_void);
  t_int = new CPPSimpleType(CPPSimpleType::T_int);
  t_const_int = new CPPConstType(t_int);
  t_int_ref = new CPPReferenceType(t_int, CPPReferenceType::VC_lvalue);
  for (int mem = 0; mem < 5; mem++) {
    if (!((MEMS >> mem) & 1)) continue;
    for (int presence = 0; presence < 16; presence++) {
      if (!((PRESENCE >> presence) & 1)) continue;
      check_class(presence, mem);
    }
  }
  WITNESS();
}

// ---- a user-provided constructor with parameters: it is a default constructor only if every parameter has a default
// argument (the parser stores `= 0` in CPPInstance::_initializer of the parameter).  Shapes by a concrete loop, access
// symbolic.
NOINL static CPPInstance *int_param(const char *name, bool with_default) {
  CPPInstance *p = new CPPInstance(t_int, std::string(name));
  if (with_default) p->_initializer = new CPPExpression(0);
  return p;
}

extern "C" void harness_c10_ctor_params() {
  t_void = new CPPSimpleType(CPPSimpleType::T_void);
  t_int = new CPPSimpleType(CPPSimpleType::T_int);
  for (int shape = S_NOARGS; shape <= S_ALL_DEFAULT; shape++) {
    CPPIdentifier *ident = new CPPIdentifier(std::string("A"));
    CPPScope *scope = new CPPScope(nullptr, CPPNameComponent("A"), V_private);
    CPPStructType *A = new CPPStructType(CPPExtensionType::T_class, ident, nullptr, scope, CPPFile());
    scope->set_struct_type(A);
    A->_incomplete = false;
    CPPParameterList *params = new CPPParameterList;
    if (shape == S_ONE || shape == S_ONE_DEFAULT) params->_parameters.push_back(int_param("a", shape == S_ONE_DEFAULT));
    if (shape == S_TRAILING_DEFAULT || shape == S_ALL_DEFAULT) {
      params->_parameters.push_back(int_param("a", shape == S_ALL_DEFAULT));
      params->_parameters.push_back(int_param("b", true));
    }
    int vis = pick_vis();
    add_function(scope, "A", params, CPPFunctionType::F_constructor, 0, vis);
    CPPInstance *m = new CPPInstance(t_int, std::string("m"));
    m->_vis = V_public;
    scope->_variables[std::string("m")] = m;
#ifdef VERIF_NATIVE
    printf("class A { access %d: A(<shape %d>); int m; }  (shape: 0 A(), 1 A(int), 2 A(int=0), 3 A(int, int=0), 4 A(int=0, int=0))\n", vis, shape);
    printf("  interrogate: has default ctor=%d default_constructible=%d; C++: %d %d\n", (int)(A->get_default_constructor() != nullptr),
           (int)A->is_default_constructible(), (int)c10p_is_default_ctor(shape), (int)c10p_default_constructible(shape, vis));
#endif
    ASSERT((A->get_default_constructor() != nullptr) == c10p_is_default_ctor(shape),
           "C10 a constructor is a default constructor exactly when every parameter has a default argument");
    ASSERT(A->is_default_constructible() == c10p_default_constructible(shape, vis),
           "C10 is_default_constructible equals std::is_default_constructible for a constructor with parameters");
    ASSERT(A->is_copy_constructible() == c10p_copy_constructible(shape, vis),
           "C10 is_copy_constructible equals std::is_copy_constructible for a constructor with parameters");
  }
  WITNESS();
}
