// C16: interrogate_module references every contributing library exactly once, base-class libraries first
// (write_python_table_native + find_dependency_cycle, interrogate_module.cxx:93-300).
//
// The interrogate_* query functions are cut from interrogate_interface.cxx and replaced by a database model:
// NT global types (TypeIndex 1..NT) and one more, non-global, type (TypeIndex NT+1); every global type has a
// library name in {a,b,c} (or none), up to 2 base types, a typedef flag with a wrapped type; one optional
// function with a library name.  The databases are ENUMERATED (concrete loops inside the one query): symbolic
// dependency sets make the shape of the std::map<string, set<string>> symbolic and symbolic execution did not
// finish in 10 minutes even for 2 libraries, whereas all 64 labelled digraphs on 3 libraries cost ~8 s each.
// Observation point: the "Referencing Library %s" progress message the function
// prints for each element of its ordered `libraries` vector, in order, in the very loop that emits the
// LibraryDef declarations (the RegisterTypes/BuildInstants/defs[] loops iterate the same vector).
#include "verif.h"
#include "vstream.h"
#include "interrogate_interface.h"
#include <string>
#include <stdio.h>
#include <stdarg.h>
#include <string.h>
#ifndef NT
#define NT 3
#endif
#ifndef SYMDEPS
#define SYMDEPS 0     // 1: the dependency sets of the types are symbolic (does not finish), 0: enumerated by CODE_FROM..CODE_TO
#endif
#ifndef SYMFUNC
#define SYMFUNC 0     // 1: presence of the function is symbolic, 0: present
#endif
#ifndef SKIP3
#define SKIP3 0
#endif
#ifndef CODE_FROM
#define CODE_FROM 0
#endif
#ifndef CODE_TO
#define CODE_TO 1     // exclusive; 5^(NT+1) codes enumerate every combination (the non-global type's digit is irrelevant)
#endif
static std::ostream *the_out;

int write_python_table_native(std::ostream &out);
extern std::string module_name;
extern std::string library_name;

extern "C" {
unsigned vp_count();
unsigned vp_char(unsigned i, unsigned j);
void vp_reset();
}
#ifdef VERIF_NATIVE
// native counterpart of models/printf.c
static unsigned char g_chars[64][4];
static unsigned g_n;
extern "C" int printf(const char *fmt, ...) {
  va_list ap;
  va_start(ap, fmt);
  if (strstr(fmt, "%s") && g_n < 64) {
    va_list aq;
    va_copy(aq, ap);
    const char *s = va_arg(aq, const char *);
    va_end(aq);
    strncpy((char *)g_chars[g_n], s, 4);
    g_n++;
  }
  int r = vfprintf(stdout, fmt, ap);
  va_end(ap);
  return r;
}
extern "C" unsigned vp_count() { return g_n; }
extern "C" unsigned vp_char(unsigned i, unsigned j) { return g_chars[i][j]; }
extern "C" void vp_reset() { g_n = 0; }
#endif

// ---- the symbolic database ---------------------------------------------------------------------------------
static char t_lib[NT + 2][2];        // library name of type t (1 char + NUL)
static bool t_has_lib[NT + 2];
static bool t_in_module[NT + 2];
static int t_nbase[NT + 2];
static int t_base[NT + 2][2];
static bool t_typedef[NT + 2];
static int t_wrapped[NT + 2];
static bool f_present, f_has_lib;
static char f_lib[2];
static char mod_this[2] = "m", mod_other[2] = "o";
static char scoped[2] = "T";

static bool valid_t(int t) { return t >= 1 && t <= NT + 1; }

extern "C" {
int interrogate_number_of_functions() { return f_present ? 1 : 0; }
FunctionIndex interrogate_get_function(int n) { ASSERT(n == 0, "C16 model: function number in range"); return 1; }
bool interrogate_function_has_library_name(FunctionIndex f) { return f_has_lib; }
const char *interrogate_function_library_name(FunctionIndex f) { return f_lib; }
int interrogate_number_of_global_types() { return NT; }
TypeIndex interrogate_get_global_type(int n) { ASSERT(n >= 0 && n < NT, "C16 model: global type number in range"); return n + 1; }
bool interrogate_type_is_global(TypeIndex t) { return t >= 1 && t <= NT; }
const char *interrogate_type_scoped_name(TypeIndex t) { return scoped; }
bool interrogate_type_has_module_name(TypeIndex t) { ASSERT(valid_t(t), "C16 model: type index valid"); return true; }
const char *interrogate_type_module_name(TypeIndex t) { return t_in_module[t] ? mod_this : mod_other; }
bool interrogate_type_has_library_name(TypeIndex t) { ASSERT(valid_t(t), "C16 model: type index valid"); return t_has_lib[t]; }
const char *interrogate_type_library_name(TypeIndex t) { ASSERT(valid_t(t), "C16 model: type index valid"); return t_lib[t]; }
int interrogate_type_number_of_derivations(TypeIndex t) { ASSERT(valid_t(t), "C16 model: type index valid"); return t_nbase[t]; }
TypeIndex interrogate_type_get_derivation(TypeIndex t, int n) {
  ASSERT(valid_t(t) && n >= 0 && n < t_nbase[t], "C16 model: derivation number in range");
  return t_base[t][n];
}
bool interrogate_type_is_typedef(TypeIndex t) { ASSERT(valid_t(t), "C16 model: type index valid"); return t_typedef[t]; }
TypeIndex interrogate_type_wrapped_type(TypeIndex t) { ASSERT(valid_t(t) && t_typedef[t], "C16 model: wrapped type of a typedef"); return t_wrapped[t]; }
}

static int lib_idx(char c) { return c - 'a'; }

// One database.  `libs` gives library / module membership of every global type, `flib` the library of the
// function (0: it has none), `code` the dependency sets: type t derives from the first t_nbase[t] (0..2) types
// of the list "the other types, ascending" and, if its typedef flag is set, wraps the last of the other types, so
// every subset of the other types is reachable as the set of types it depends on.
// (noinline: a fresh frame per case, so that CBMC's per-frame loop counters start at 0 for every case)
static void __attribute__((noinline)) run_case(const char *libs, char flib, unsigned code) {
  for (int t = 1; t <= NT + 1; t++) {
    // letter of the assignment: a-c library of this module, A-C library but the type belongs to another module,
    // '-' a global type without library name; type NT+1 is not global and has no library
    char l = t <= NT ? libs[t - 1] : '-';
    bool foreign = (l >= 'A' && l <= 'C');
    t_lib[t][0] = (l == '-') ? 'c' : (foreign ? (char)(l + 32) : l); t_lib[t][1] = 0;
    t_has_lib[t] = (l != '-');
    t_in_module[t] = !foreign;
    // which of its two candidate types type t depends on: SYMDEPS ? symbolic : digit t of `code` in base 5
    //   0: none, 1: first (base class), 2: second (typedef), 3: both (two base classes), 4: both (base class + typedef)
    int nb, td;
    if (SYMDEPS) {
      nb = nondet_int();
      ASSUME(nb >= 0 && nb <= 2);
      td = nondet_bool();
    } else {
      unsigned m = code % 5; code /= 5;
      nb = (m == 0 || m == 2) ? 0 : (m == 3 ? 2 : 1);
      td = (m == 2 || m == 4);
    }
    t_nbase[t] = nb;
    int k = 0;
    for (int u = 1; u <= NT + 1 && k < 2; u++) if (u != t) t_base[t][k++] = u;
    t_typedef[t] = td;
    t_wrapped[t] = (t == NT) ? NT - 1 : NT;
    if (NT == 1) t_wrapped[t] = NT + 1;
  }
  f_present = SYMFUNC ? nondet_bool() : true;
  f_has_lib = flib != 0;
  f_lib[0] = flib ? flib : 'a'; f_lib[1] = 0;

  // ---- expected library set and dependency relation (lib x needs lib y first) -------------------------------
  bool contributes[3] = { false, false, false };
  bool needs[3][3] = { { false } };
  if (f_present && f_has_lib) contributes[lib_idx(f_lib[0])] = true;
  for (int t = 1; t <= NT; t++) {
    if (!t_in_module[t] || !t_has_lib[t]) continue;
    int x = lib_idx(t_lib[t][0]);
    contributes[x] = true;
    for (int k = 0; k < 2; k++) {
      if (k >= t_nbase[t]) continue;
      int b = t_base[t][k];
      if (b <= NT && t_has_lib[b] && lib_idx(t_lib[b][0]) != x) needs[x][lib_idx(t_lib[b][0])] = true;
    }
    if (t_typedef[t]) {
      int b = t_wrapped[t];
      if (b <= NT && t_has_lib[b] && lib_idx(t_lib[b][0]) != x) needs[x][lib_idx(t_lib[b][0])] = true;
    }
  }
  // only edges between contributing libraries constrain the order (a base class may live in a library of
  // another module, which is neither referenced nor ordered by this module file)
  bool cyclic = false;
  for (int i = 0; i < 3; i++)
    for (int j = 0; j < 3; j++) {
      if (!contributes[i] || !contributes[j]) needs[i][j] = false;
    }
  cyclic = (needs[0][1] && needs[1][0]) || (needs[0][2] && needs[2][0]) || (needs[1][2] && needs[2][1]) ||
           (needs[0][1] && needs[1][2] && needs[2][0]) || (needs[0][2] && needs[2][1] && needs[1][0]);

  vp_reset();
  write_python_table_native(*the_out);

  unsigned n = vp_count();
  int pos[3] = { -1, -1, -1 };
  int times[3] = { 0, 0, 0 };
  ASSERT(n <= 3, "C16 no library is referenced twice (more references than libraries)");
  bool shape_ok = true;
  for (unsigned i = 0; i < 3; i++) {
    if (i >= n) break;
    unsigned c = vp_char(i, 0);
    if (c < 'a' || c > 'c' || vp_char(i, 1) != 0) { shape_ok = false; continue; }
    times[c - 'a']++;
    pos[c - 'a'] = (int)i;
  }
  ASSERT(shape_ok, "C16 only libraries of the database are referenced");
  for (int x = 0; x < 3; x++) {
    if (contributes[x]) {
      ASSERT(times[x] >= 1, "C16 every library that contributes a type or function to the module is referenced");
      ASSERT(times[x] <= 1, "C16 no library is referenced twice");
    } else {
      ASSERT(times[x] == 0, "C16 a library that contributes nothing to the module is not referenced");
    }
  }
  if (!cyclic) {
    for (int x = 0; x < 3; x++)
      for (int y = 0; y < 3; y++)
        if (needs[x][y]) {
          ASSERT(pos[y] < pos[x], "C16 a library is initialised after the libraries of its base classes / typedef targets");
        }
  }
}

// LIBSETS: ';'-separated assignments, each NT library letters for types 1..NT followed by the function's
// library letter or '-' (function without library name), e.g. "ab-;bac"
#ifndef LIBSETS
#define LIBSETS "ab-"
#endif
extern "C" void harness_c16_library_order() {
  __ll2c_global_ctors();                     // std::cerr for the cycle diagnostics; module_name / library_name
  // (not `= "m"`: basic_string::_M_replace compares unrelated pointers, which the solver leaves undetermined)
  module_name.push_back('m');
  library_name.push_back('L');
  the_out = vs_ostream_sink();
  const char *sets = LIBSETS;
  for (int p = 0; sets[p]; p += NT + 2) {
    for (unsigned code = CODE_FROM; code < CODE_TO; code++) {
      // mode 3 (two base classes) gives the same library graph as mode 4 (base class + typedef): optional
      if (SKIP3 && (code % 5 == 3 || code / 5 % 5 == 3 || code / 25 % 5 == 3)) continue;
      // symbolic early stop: the cases are run in order and the run may end before any of them, so that the end
      // of the harness (WITNESS) stays reachable when a case fails to terminate and the unwinding assertion of
      // the non-terminating loop is reported as the violation it is (the continuing path keeps concrete data)
      if (nondet_bool()) goto done;
      run_case(sets + p, sets[p + NT] == '-' ? 0 : sets[p + NT], code);
    }
    if (!sets[p + NT + 1]) break;
  }
done:
  WITNESS();
}
