"""Catalogue of harnesses: one entry = one CBMC query family (entry point + bounds per tier).
The entries live in harness/cat/cNN.py (one file per property) so that they can be edited independently."""
import os, glob, importlib, sys
sys.path.insert(0, os.path.dirname(os.path.abspath(__file__)))
HARNESSES = []
PROPERTY_INFO = {}
NOT_APPLICABLE = {}
for _f in sorted(glob.glob(os.path.join(os.path.dirname(os.path.abspath(__file__)), 'cat', 'c[0-9]*.py'))):
    _m = importlib.import_module('cat.' + os.path.basename(_f)[:-3])
    HARNESSES += getattr(_m, 'HARNESSES', [])
    PROPERTY_INFO.update(getattr(_m, 'PROPERTY_INFO', {}))
    NOT_APPLICABLE.update(getattr(_m, 'NOT_APPLICABLE', {}))
