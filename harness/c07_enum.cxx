// C07: implicit enumerator values (CPPEnumType::add_element synthesises "previous + 1") evaluate to previous + 1,
// whatever shape the previous enumerator's initializer has.
#include "verif.h"
#include "cppEnumType.h"
#include "cppExpression.h"
#include "cppIdentifier.h"
#include "cppInstance.h"
#include "cppBison.h"

// the type-interning table is irrelevant here
CPPType *CPPType::new_type(CPPType *type) { return type; }

static CPPExpression *mk(int shape, int a, int n) {
  // shape 0: literal a;  1: a + n;  2: a - n;  3: (a - n) + 1 written explicitly;  4: n - a;  5: -a
  switch (shape) {
  case 0: return new CPPExpression(a);
  case 1: return new CPPExpression('+', new CPPExpression(a), new CPPExpression(n));
  case 2: return new CPPExpression('-', new CPPExpression(a), new CPPExpression(n));
  case 3: return new CPPExpression('+', new CPPExpression('-', new CPPExpression(a), new CPPExpression(n)), new CPPExpression(1));
  case 4: return new CPPExpression('-', new CPPExpression(n), new CPPExpression(a));
  default: return new CPPExpression(UNARY_MINUS, new CPPExpression(a));
  }
}

extern "C" void harness_c07_enum_increment() {
  int a = nondet_int(), n = nondet_int();
  ASSUME(a > -100000 && a < 100000 && n > -100000 && n < 100000);     // keeps every value inside int
  cppyyltype pos;
  pos.first_line = 1; pos.first_column = 1; pos.last_line = 1; pos.last_column = 1;
  for (int shape = 0; shape < 6; shape++) {                           // concrete loop: pointers stay concrete
    CPPEnumType *e = new CPPEnumType(CPPExtensionType::T_enum_class, new CPPIdentifier("E"), (CPPScope *)0, (CPPScope *)0, CPPFile());
    CPPInstance *first = e->add_element("e0", mk(shape, a, n), (CPPPreprocessor *)0, pos);
    CPPInstance *second = e->add_element("e1", (CPPExpression *)0, (CPPPreprocessor *)0, pos);
    CPPInstance *third = e->add_element("e2", (CPPExpression *)0, (CPPPreprocessor *)0, pos);
    CPPExpression::Result r0 = first->_initializer->evaluate();
    CPPExpression::Result r1 = second->_initializer->evaluate();
    CPPExpression::Result r2 = third->_initializer->evaluate();
    ASSERT(r0._type == CPPExpression::RT_integer && r1._type == CPPExpression::RT_integer && r2._type == CPPExpression::RT_integer,
           "C07 enumerator initializers evaluate to integers");
    ASSERT(r1._u._integer == r0._u._integer + 1, "C07 an enumerator without initializer has the previous value plus one");
    ASSERT(r2._u._integer == r0._u._integer + 2, "C07 the second implicit enumerator has the first value plus two");
  }
  // the very first enumerator without initializer is 0
  CPPEnumType *z = new CPPEnumType(CPPExtensionType::T_enum_class, new CPPIdentifier("Z"), (CPPScope *)0, (CPPScope *)0, CPPFile());
  CPPInstance *z0 = z->add_element("z0", (CPPExpression *)0, (CPPPreprocessor *)0, pos);
  CPPInstance *z1 = z->add_element("z1", (CPPExpression *)0, (CPPPreprocessor *)0, pos);
  ASSERT(z0->_initializer->evaluate()._u._integer == 0 && z1->_initializer->evaluate()._u._integer == 1, "C07 implicit enumerators start at zero");
  WITNESS();
}
