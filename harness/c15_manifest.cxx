// C15 totality of macro definition parsing: the CPPManifest constructors
// (#define text form and command-line -D "name=value" form), which run
// parse_parameters and save_expansion, on every short definition text.
// Nothing is asserted about the result: the verdict is "no crash: failure, no
// memory-safety failure, every loop ends within the input-derived bound".
#include "verif.h"
#include "cppManifest.h"
#include "cppPreprocessor.h"
#include "c08_fixedvec.h"
#include <string>
#include <new>

#ifndef LMAX
#define LMAX 4
#endif

// Only _verbose is ever read through it (warning() returns first thing when _verbose < 2).
static CPPPreprocessor *make_pp() {
  alignas(16) static unsigned char storage[sizeof(CPPPreprocessor)];
  CPPPreprocessor *pp = reinterpret_cast<CPPPreprocessor *>(storage);
  pp->_verbose = 1;
  pp->_warning_count = 0;
  pp->_error_count = 0;
  return pp;
}

// The constructors end by handing the rest of the text to save_expansion().  That scanner is decided on its own
// (c15_expansion.cxx, every short text); here it is cut (catalogue: cut=[save_expansion]) and replaced by a
// stub that only checks what it is handed, so that the constructors' own index arithmetic, the name scan and
// parse_parameters are explored without paying for the nested scanner at every path.
static int g_save_expansion_calls = 0;
void CPPManifest::save_expansion(Expansion &expansion, const std::string &exp, const vector_string &parameter_names) {
  g_save_expansion_calls++;
  ASSERT(exp.size() <= (size_t)LMAX, "C15 the expansion text handed to save_expansion is a part of the definition text");
  ASSERT(parameter_names.size() <= (size_t)LMAX, "C15 a definition of n bytes has at most n parameters");
}

// alphabet: a ( ) , space # .
static char pick_def_char() {
  unsigned char k = nondet_uchar();
  ASSUME(k < 7);
  return k == 0 ? 'a' : k == 1 ? '(' : k == 2 ? ')' : k == 3 ? ',' : k == 4 ? ' ' : k == 5 ? '#' : '.';
}

// true when the macro name is directly followed by '(' and no ')' follows: the
// KNOWN crashing class "#define F(a" (parse_parameters runs off the end, the
// constructor then calls args.substr(size+1)).
static bool unterminated_params(const char *s, int n) {
  int p = 0;
  for (int g = 0; g < LMAX; g++) {
    if (p >= n || s[p] == ' ' || s[p] == '(') break;
    p++;
  }
  if (p >= n || s[p] != '(') return false;
  bool closed = false;
  for (int i = 0; i < LMAX; i++)
    if (i > p && i < n && s[i] == ')') closed = true;
  return !closed;
}

// #define form: handle_define_directive passes the trimmed, non-empty rest of the directive line
extern "C" void harness_c15_define_ctor() {
  int n = nondet_int();
  ASSUME(n >= 1 && n <= LMAX);
  char b[LMAX + 1];
  FILL_SYMBOLIC(b, LMAX, n, pick_def_char);
  ASSUME(b[0] != ' ');          // get_preprocessor_args() trims blanks
  ASSUME(b[n - 1] != ' ');
#ifdef EXCLUDE_UNTERMINATED_PARAMS
  ASSUME(!unterminated_params(b, n));
#endif
  g_save_expansion_calls = 0;
  CPPPreprocessor *pp = make_pp();
  cppyyltype *loc = new cppyyltype;
  loc->first_line = loc->last_line = 1;
  loc->first_column = loc->last_column = 1;
  SYMBOLIC_STRING(args, b, LMAX, n);
  CPPManifest *m = new CPPManifest(*pp, args, *loc);
  ASSERT(m->_num_parameters <= (size_t)LMAX, "C15 a definition of n bytes has at most n parameters");
  ASSERT(m->_has_parameters || m->_num_parameters == 0, "C15 an object-like macro has no parameters");
  ASSERT(g_save_expansion_calls == 1, "C15 the constructor reaches save_expansion exactly once");
  WITNESS();
}

// -D form: predefine_macro() splits "name=value" at the first '='; both halves are arbitrary (also empty)
extern "C" void harness_c15_dash_d_ctor() {
  int k = nondet_int();      // length of the name part
  int d = nondet_int();      // length of the value part
  ASSUME(k >= 0 && k <= LMAX && d >= 0 && d <= LMAX && k + d <= LMAX);
  char b1[LMAX + 1], b2[LMAX + 1];
  FILL_SYMBOLIC(b1, LMAX, k, pick_def_char);
  FILL_SYMBOLIC(b2, LMAX, d, pick_def_char);
  g_save_expansion_calls = 0;
  CPPPreprocessor *pp = make_pp();
  SYMBOLIC_STRING(macro, b1, LMAX, k);
  SYMBOLIC_STRING(def, b2, LMAX, d);
  CPPManifest *m = new CPPManifest(*pp, macro, def);
  ASSERT(m->_num_parameters <= (size_t)LMAX, "C15 a definition of n bytes has at most n parameters");
  ASSERT(m->_has_parameters || m->_num_parameters == 0, "C15 an object-like macro has no parameters");
  ASSERT(g_save_expansion_calls == 1, "C15 the constructor reaches save_expansion exactly once");
  WITNESS();
}
