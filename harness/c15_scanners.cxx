// C15 totality of the hand-written character scanners of CPPPreprocessor that
// read from the input stream: scan_raw (C++11 raw strings), scan_quoted +
// scan_escape_sequence, skip_c_comment / skip_cpp_comment, skip_digit_separator,
// and of the static helper trim_blanks.  The scanners are the real code; the
// character source under them (CPPPreprocessor::get/peek) is a small model of
// one non-nested input, see below.
// No oracle beyond "result no longer than the input": crashes, memory errors
// and unbounded loops are the violations.
#include "verif.h"
#include "cppPreprocessor.h"
#include "c08_fixedvec.h"
#include <string>

#ifndef NMAX
#define NMAX 4
#endif


// The character source.  CPPPreprocessor::get() and peek() are cut in the catalogue and replaced by this model of
// their behaviour on ONE non-nested input of g_nbytes bytes: the unget slot first; then the bytes; at the end of the
// input get() returns one synthesized '\n' (the real code pops the finished InputFile and says "just in case the file
// doesn't already end with one") and EOF from then on, while peek() reports EOF as soon as the bytes are used up.
// (The real get() deletes the popped InputFile and its std::istream: a virtual destructor call that fans out over
// every stream class for the solver, at every get() of every scanner loop -- far beyond the budget.)
static const char *g_bytes = 0;
static int g_nbytes = 0, g_pos = 0;
static bool g_newline_given = false;
int CPPPreprocessor::get() {
  if (_unget != '\0') { int c = _unget; _unget = '\0'; return c; }
  if (g_pos < g_nbytes) return (unsigned char)g_bytes[g_pos++];
  if (!g_newline_given) { g_newline_given = true; return '\n'; }   // (_infile is left in place: only get_file()/line numbers read it)
  return EOF;
}
int CPPPreprocessor::peek() {
  if (_unget != '\0') return _unget;
  if (g_pos < g_nbytes) return (unsigned char)g_bytes[g_pos];
  return EOF;
}

static CPPPreprocessor *make_pp(const char *bytes, int n) {
  CPPPreprocessor *pp = new CPPPreprocessor;   // a real, typed object: the scanners follow _infile, a pointer stored in it
  pp->_verbose = 0;            // count diagnostics, do not print them
  pp->_warning_count = 0;
  pp->_error_count = 0;
  pp->_unget = '\0';
  pp->_last_c = '\0';
  pp->_start_of_line = true;
  pp->_save_comments = false;
  pp->_last_cpp_comment = false;
  pp->_error_abort = false;
  pp->_state = CPPPreprocessor::S_normal;
  CPPPreprocessor::InputFile *f = new CPPPreprocessor::InputFile;
  f->_in = nullptr;
  g_bytes = bytes; g_nbytes = n; g_pos = 0; g_newline_given = false;
  f->_parent = nullptr;
  f->_prev_last_c = '\0';
  pp->_infile = f;
  return pp;
}

// ---- scan_raw: called by get_identifier() right after R" has been read
// alphabet: " ( ) a newline
static char pick_raw_char() {
  unsigned char k = nondet_uchar();
  ASSUME(k < 5);
  return k == 0 ? '"' : k == 1 ? '(' : k == 2 ? ')' : k == 3 ? 'a' : '\n';
}

// KNOWN crashing class: the first '"' of the raw string's body comes before the body is as long as the closing
// delimiter  )delim  -- e.g. R"(")" or R"x(a"b)x" (valid C++): str.compare(str.size() - delimiter.size(), ...)
// is called with a position "below zero".
static bool early_quote(const char *s, int n) {
  int d = 0;                       // length of the delimiter prefix (bytes before the first '(')
  for (int g = 0; g < NMAX; g++) { if (d >= n || s[d] == '(') break; d++; }
  if (d >= n) return false;        // no '(' at all: the body is never scanned
  int body = 0;
  for (int i = 0; i < NMAX; i++) {
    if (i <= d || i >= n) continue;
    if (s[i] == '"') return body < d + 1;
    body++;
  }
  return false;
}

extern "C" void harness_c15_scan_raw() {
  int n = nondet_int();
  ASSUME(n >= 0 && n <= NMAX);
  char b[NMAX + 1];
  FILL_SYMBOLIC(b, NMAX, n, pick_raw_char);
#ifdef EXCLUDE_EARLY_QUOTE
  ASSUME(!early_quote(b, n));
#endif
  CPPPreprocessor *pp = make_pp(b, n);
  std::string r = pp->scan_raw('"');
  ASSERT(r.size() <= (size_t)n, "C15 a raw string is no longer than the bytes scanned");
  WITNESS();
}

// ---- scan_quoted / scan_escape_sequence: called after the opening quote has been read
// alphabet: " \ x 1 a newline
static char pick_quoted_char() {
  unsigned char k = nondet_uchar();
  ASSUME(k < 6);
  return k == 0 ? '"' : k == 1 ? '\\' : k == 2 ? 'x' : k == 3 ? '1' : k == 4 ? 'a' : '\n';
}

extern "C" void harness_c15_scan_quoted() {
  int n = nondet_int();
  ASSUME(n >= 0 && n <= NMAX);
  char b[NMAX + 1];
  FILL_SYMBOLIC(b, NMAX, n, pick_quoted_char);
  CPPPreprocessor *pp = make_pp(b, n);
  std::string r = pp->scan_quoted('"');
  ASSERT(r.size() <= (size_t)n, "C15 a quoted string is no longer than the bytes scanned");
  ASSERT(pp->_warning_count <= 1, "C15 at most one diagnostic per literal");
  WITNESS();
}

// ---- comments and digit separators
// alphabet: * / a ' 1 newline
static char pick_comment_char() {
  unsigned char k = nondet_uchar();
  ASSUME(k < 6);
  return k == 0 ? '*' : k == 1 ? '/' : k == 2 ? 'a' : k == 3 ? '\'' : k == 4 ? '1' : '\n';
}

extern "C" void harness_c15_comments() {
  int n = nondet_int();
  ASSUME(n >= 0 && n <= NMAX);
  char b[NMAX + 1];
  FILL_SYMBOLIC(b, NMAX, n, pick_comment_char);
  CPPPreprocessor *pp = make_pp(b, n);
  int which = nondet_int();
  ASSUME(which >= 0 && which <= 2);
  int c;
  if (which == 0) c = pp->skip_c_comment(pp->get());         // after  /*  has been read
  else if (which == 1) c = pp->skip_cpp_comment(pp->get());  // after  //  has been read
  else c = pp->skip_digit_separator(pp->peek());             // inside a number, next byte peeked
  ASSERT(c >= -1 && c <= 255, "C15 scanners return a byte or EOF");
  WITNESS();
}

// ---- trim_blanks (static in cppPreprocessor.cxx)
std::string trim_blanks_real(const std::string &) asm("_ZL11trim_blanksRKNSt7__cxx1112basic_stringIcSt11char_traitsIcESaIcEEE");
static char pick_blank_char() {
  unsigned char k = nondet_uchar();
  ASSUME(k < 4);
  return k == 0 ? ' ' : k == 1 ? 'a' : k == 2 ? '\n' : '\t';
}

extern "C" void harness_c15_trim_blanks() {
  int n = nondet_int();
  ASSUME(n >= 0 && n <= NMAX);
  char b[NMAX + 1];
  FILL_SYMBOLIC(b, NMAX, n, pick_blank_char);
  SYMBOLIC_STRING(s, b, NMAX, n);
  std::string r = trim_blanks_real(s);
  ASSERT(r.size() <= (size_t)n, "C15 trim_blanks returns a substring");
  bool lead = r.size() > 0 && (r._M_local_buf[0] == ' ' || r._M_local_buf[0] == '\n' || r._M_local_buf[0] == '\t');
  ASSERT(!lead, "C15 trim_blanks leaves no leading blank");
  WITNESS();
}
